#!/usr/bin/env python3
"""Translate every `eval` body of `vita::real::*` (real.h), `vita::str::*` (string.h) and the
`issmall<double>` helper (utility.h) of the *current* repo working tree into Lean terms
(syntax only) -> lean/Vita/C13/Gen.lean.

An `eval` body becomes a term of `Vita.Prog F (Val F)` (interaction tree over an abstract
`FloatOps F`): `args[i]` is `.fetch i fun v => …`, `p.fetch_param()` is `.param fun p => …`,
`base(v)` / `std::get<T>(v)` are `Val.withDbl v fun x => …` (the `bad_variant_access` exit is
`.throw`), early returns / `if` / `?:` are Lean `if … then … else`, arithmetic and libm calls
are the `FloatOps` fields.  The translation is in continuation-passing style, so the order of
the requests is the C++ evaluation order.

Refuses (exit 2 / raises `Refuse`) on anything it does not understand – never skips code."""
import os
import struct
import sys

sys.path.insert(0, os.path.dirname(os.path.abspath(__file__)))
from cxx2lean import Refuse, ast_dump, kids, qtype, peel, callee_name, records_with_method, find_all

WRAP = {"ExprWithCleanups", "MaterializeTemporaryExpr", "CXXBindTemporaryExpr", "ParenExpr", "ConstantExpr"}
PASS_CASTS = {"NoOp", "LValueToRValue", "ConstructorConversion", "FunctionToPointerDecay"}
UN1 = {"fabs": "fabs", "abs": "fabs", "floor": "floor", "sqrt": "sqrt", "log": "log", "exp": "exp",
       "sin": "sin", "cos": "cos"}
BIN2 = {"fmod": "fmod", "fmin": "fmin", "fmax": "fmax"}
ARITH = {"+": "add", "-": "sub", "*": "mul", "/": "div"}


def dbl_bits(x):
    return struct.unpack("<Q", struct.pack("<d", x))[0]


def lit(x):
    return "(FloatOps.ofBits 0x%016X)" % dbl_bits(x)


def ctype(n):
    """Lean-side type tag of a C++ expression node."""
    t = qtype(n).replace("const ", "").strip()
    if t in ("vita::value_t", "std::variant<std::monostate, int, double, std::basic_string<char>>",
             "variant<std::monostate, int, double, std::basic_string<char>>"):
        return "val"
    if t in ("double", "vita::real::base_t", "vita::terminal_param_t"):
        return "dbl"
    if t == "bool":
        return "bool"
    if t in ("int", "vita::D_INT", "vita::integer::base_t"):
        return "int"
    if t in ("unsigned int", "vita::index_t"):
        return "uint"
    if t in ("unsigned long", "std::basic_string<char>::size_type", "std::size_t", "size_t"):
        return "nat"
    if t in ("std::basic_string<char>", "std::string", "vita::D_STRING", "basic_string<char>"):
        return "str"
    raise Refuse("expression of unsupported type %r (%s)" % (qtype(n), n.get("kind")))


def has_effect(n):
    """Does evaluating n request an argument / parameter or possibly throw?"""
    def pred(x):
        k = x.get("kind")
        if k == "CXXOperatorCallExpr" and callee_name(x) == "operator[]":
            return True
        if k == "CXXMemberCallExpr" and callee_name(x) in ("fetch_param", "fetch_arg", "fetch_var",
                                                          "fetch_opaque_arg"):
            return True
        if k == "CallExpr" and callee_name(x) in ("base", "get", "cast"):
            return True
        return False
    return bool(find_all(n, pred))


def has_fetch(n):
    def pred(x):
        k = x.get("kind")
        if k == "CXXOperatorCallExpr" and callee_name(x) == "operator[]":
            return True
        if k == "CXXMemberCallExpr" and callee_name(x) in ("fetch_arg", "fetch_opaque_arg"):
            return True
        return False
    return bool(find_all(n, pred))


def to_val(t, ty):
    if ty == "val":
        return t
    if ty == "dbl":
        return "(Val.dbl %s)" % t
    if ty == "bool":
        return "(Val.ofBool %s)" % t
    if ty == "str":
        return "(Val.str %s)" % t
    if ty == "int":
        return "(Val.int %s)" % t
    raise Refuse("cannot build a value_t from a %s" % ty)


class Tr:
    def __init__(self, pure=False, fields=None, methods=None):
        self.locals = {}
        self.n = 0
        self.pure = pure        # translating a plain function (no Prog context)
        self.fields = fields or {}      # data member name -> (Lean parameter, type tag)
        self.methods = methods or {}    # zero-argument member functions of the same class (inlined)

    def fresh(self, p):
        self.n += 1
        return "%s%d" % (p, self.n)

    # ---- expressions (CPS: k(text, type) -> text of the rest) -------------------
    def seq(self, nodes, k):
        """Evaluate nodes left to right, then k([(text, type)…]).  C++ leaves the order of
        operands unspecified: that is harmless for `throw` (one exception type, no state),
        refused when two operands request arguments."""
        if sum(1 for x in nodes if has_fetch(x)) > 1:
            raise Refuse("two operands of one operator request arguments (unspecified order)")
        def go(i, acc):
            if i == len(nodes):
                return k(acc)
            return self.ex(nodes[i], lambda t, ty: go(i + 1, acc + [(t, ty)]))
        return go(0, [])

    def arg_index(self, n):
        p = peel(n)
        while p.get("kind") == "ImplicitCastExpr" and p.get("castKind") == "IntegralCast":
            p = peel(kids(p)[0])
        if p.get("kind") != "IntegerLiteral":
            raise Refuse("non-literal argument index")
        return int(p["value"])

    def ex(self, n, k):
        kd = n.get("kind")
        ks = kids(n)
        if kd in WRAP:
            return self.ex(ks[0], k)
        if kd in ("ImplicitCastExpr", "CXXStaticCastExpr", "CXXFunctionalCastExpr", "CStyleCastExpr"):
            ck = n.get("castKind")
            if ck in PASS_CASTS:
                return self.ex(ks[-1], k)
            if ck == "IntegralToFloating":
                def conv(t, ty):
                    if ty == "int":
                        return k("(FloatOps.ofInt %s)" % t, "dbl")
                    if ty != "nat":
                        raise Refuse("integral-to-floating conversion from %s" % ty)
                    return k("(FloatOps.ofNat %s)" % t, "dbl")
                return self.ex(ks[-1], conv)
            if ck == "IntegralToBoolean":
                def tob(t, ty):
                    if ty != "int":
                        raise Refuse("integral-to-boolean conversion from %s" % ty)
                    return k("(decide (%s ≠ 0))" % t, "bool")
                return self.ex(ks[-1], tob)
            raise Refuse("cast kind %s" % ck)
        if kd in ("CXXConstructExpr", "CXXTemporaryObjectExpr"):
            if ctype(n) != "val":
                raise Refuse("construction of %s" % qtype(n))
            if not ks:
                return k("Val.void", "val")
            if len(ks) != 1:
                raise Refuse("value_t constructor with %d arguments" % len(ks))
            return self.ex(ks[0], lambda t, ty: k(to_val(t, ty), "val"))
        if kd == "FloatingLiteral":
            if ctype(n) != "dbl":
                raise Refuse("floating literal of type %s" % qtype(n))
            return k(lit(float(n["value"])), "dbl")
        if kd == "CXXBoolLiteralExpr":
            return k("true" if n["value"] else "false", "bool")
        if kd == "IntegerLiteral" and ctype(n) == "int":
            return k("(%d)" % int(n["value"]), "int")
        if kd == "DeclRefExpr":
            name = n.get("referencedDecl", {}).get("name")
            if name in self.locals:
                return k(*self.locals[name])
            raise Refuse("reference to unknown variable %r" % name)
        if kd == "MemberExpr" and ks and ks[0].get("kind") == "CXXThisExpr":
            if n.get("name") in self.fields:
                return k(*self.fields[n["name"]])
            raise Refuse("data member %r" % n.get("name"))
        if kd == "CXXOperatorCallExpr":
            name = callee_name(n)
            if name == "operator[]":
                base = peel(ks[1])
                if not (base.get("kind") == "DeclRefExpr" and "symbol_params" in qtype(base)):
                    raise Refuse("operator[] on something that is not the symbol_params")
                if self.pure:
                    raise Refuse("argument request in a plain function")
                i = self.arg_index(ks[2])
                v = self.fresh("v")
                return "(.fetch %d fun %s =>\n%s)" % (i, v, k(v, "val"))
            if name == "operator==" and len(ks) == 3 and ctype(ks[1]) == "val" and ctype(ks[2]) == "val":
                return self.seq(ks[1:], lambda a: k("(Val.eqv %s %s)" % (a[0][0], a[1][0]), "bool"))
            raise Refuse("overloaded operator %s" % name)
        if kd == "CXXMemberCallExpr":
            name = callee_name(n)
            obj = peel(kids(ks[0])[0]) if ks and kids(ks[0]) else {}
            if name == "fetch_param" and "symbol_params" in qtype(obj) and len(ks) == 1:
                if self.pure:
                    raise Refuse("parameter request in a plain function")
                p = self.fresh("p")
                return "(.param fun %s =>\n%s)" % (p, k(p, "dbl"))
            if name in ("length", "size") and len(ks) == 1 and ctype(obj) == "str":
                return self.ex(obj, lambda t, ty: k("(String.utf8ByteSize %s)" % t, "nat"))
            if name == "fetch_var" and "symbol_params" in qtype(obj) and len(ks) == 2:
                if self.pure:
                    raise Refuse("variable request in a plain function")
                def fv(t, ty):
                    if ty != "uint":
                        raise Refuse("fetch_var index of type %s" % ty)
                    v = self.fresh("v")
                    return "(.var %s fun %s =>\n%s)" % (t, v, k(v, "val"))
                return self.ex(ks[1], fv)
            mobj = kids(ks[0])[0] if ks and kids(ks[0]) else {}
            if len(ks) == 1 and mobj.get("kind") == "CXXThisExpr" and name in self.methods:
                # a call of another zero-argument member of the same object: inlined
                m = self.methods[name]
                sub = Tr(self.pure, self.fields, {a: b for a, b in self.methods.items() if a != name})
                sub.n = self.n
                r = sub.body([c for c in kids(m) if c.get("kind") == "CompoundStmt"], k)
                self.n = sub.n
                return r
            raise Refuse("member call %s" % name)
        if kd == "CallExpr":
            name = callee_name(n)
            f = peel(ks[0])
            ftype = f.get("type", {}).get("qualType", "")
            args = ks[1:]
            if name == "has_value" and len(args) == 1:
                return self.ex(args[0], lambda t, ty: k("(Val.hasValue %s)" % t, "bool"))
            if name == "base" and len(args) == 1 and ftype.startswith("vita::real::base_t (const vita::value_t &)"):
                if self.pure:
                    raise Refuse("base() in a plain function")
                x = self.fresh("x")
                return self.ex(args[0], lambda t, ty: "(Val.withDbl %s fun %s =>\n%s)" % (t, x, k(x, "dbl")))
            if name == "get" and len(args) == 1 and ctype(args[0]) == "val":
                if self.pure:
                    raise Refuse("std::get in a plain function")
                rt = ctype(n)
                w = {"dbl": "withDbl", "str": "withStr", "int": "withInt"}.get(rt)
                if w is None:
                    raise Refuse("std::get to %s" % rt)
                x = self.fresh({"dbl": "x", "str": "s", "int": "n"}[rt])
                return self.ex(args[0], lambda t, ty: "(Val.%s %s fun %s =>\n%s)" % (w, t, x, k(x, rt)))
            if name == "isfinite" and len(args) == 1 and ftype.startswith("bool (double)"):
                return self.ex(args[0], lambda t, ty: k("(FloatOps.isFinite %s)" % t, "bool"))
            if name in ("isless", "isgreater") and len(args) == 2 and ftype.startswith("bool (double, double)"):
                def cmp2(a):
                    (x, _), (y, _) = a
                    return k("(FloatOps.lt %s %s)" % ((x, y) if name == "isless" else (y, x)), "bool")
                return self.seq(args, cmp2)
            if name in UN1 and len(args) == 1 and ftype.startswith("double (double)"):
                return self.ex(args[0], lambda t, ty: k("(FloatOps.%s %s)" % (UN1[name], t), "dbl"))
            if name in BIN2 and len(args) == 2 and ftype.startswith("double (double, double)"):
                return self.seq(args, lambda a: k("(FloatOps.%s %s %s)" % (BIN2[name], a[0][0], a[1][0]), "dbl"))
            if name == "issmall" and len(args) == 1 and ftype.startswith("bool (double)"):
                return self.ex(args[0], lambda t, ty: k("(issmall %s)" % t, "bool"))
            if name == "epsilon" and not args and ftype.startswith("double ()"):
                return k(lit(2.0 ** -52), "dbl")
            if name == "between" and len(args) == 2 and ctype(n) in ("dbl", "int") and \
                    all(ctype(a) == ctype(n) for a in args):
                fn = "betweenD" if ctype(n) == "dbl" else "between"
                return self.seq(args, lambda a: k("(%s %s %s)" % (fn, a[0][0], a[1][0]), ctype(n)))
            raise Refuse("call to %r of type %r" % (name, ftype))
        if kd == "UnaryOperator":
            op = n.get("opcode")
            if op == "!" and ctype(n) == "bool":
                return self.ex(ks[0], lambda t, ty: k("(!%s)" % t, "bool"))
            if op == "-" and ctype(n) == "dbl":
                return self.ex(ks[0], lambda t, ty: k("(FloatOps.neg %s)" % t, "dbl"))
            if op == "+" and ctype(n) == "dbl":
                return self.ex(ks[0], k)
            raise Refuse("unary operator %s" % op)
        if kd == "BinaryOperator":
            op = n.get("opcode")
            if op in ("&&", "||"):
                if has_effect(ks[1]):
                    def sc(t, ty):
                        if op == "&&":
                            return "(if %s then\n%s\nelse\n%s)" % (t, self.ex(ks[1], k), k("false", "bool"))
                        return "(if %s then\n%s\nelse\n%s)" % (t, k("true", "bool"), self.ex(ks[1], k))
                    return self.ex(ks[0], sc)
                return self.seq(ks, lambda a: k("(%s %s %s)" % (a[0][0], op, a[1][0]), "bool"))
            if ctype(ks[0]) == "int" and ctype(ks[1]) == "int" and op in ("==", "!=", "<", "<=", ">", ">="):
                sym = {"==": "=", "!=": "≠", "<=": "≤", ">=": "≥"}.get(op, op)
                return self.seq(ks, lambda a: k("(decide (%s %s %s))" % (a[0][0], sym, a[1][0]), "bool"))
            if ctype(ks[0]) != "dbl" or ctype(ks[1]) != "dbl":
                raise Refuse("binary operator %s on %s, %s" % (op, qtype(ks[0]), qtype(ks[1])))
            if op in ARITH:
                return self.seq(ks, lambda a: k("(FloatOps.%s %s %s)" % (ARITH[op], a[0][0], a[1][0]), "dbl"))
            cmpf = {"<": "(FloatOps.lt %s %s)", "<=": "(FloatOps.le %s %s)", "==": "(FloatOps.eq %s %s)",
                    "!=": "(!(FloatOps.eq %s %s))"}
            if op in cmpf:
                return self.seq(ks, lambda a: k(cmpf[op] % (a[0][0], a[1][0]), "bool"))
            if op == ">":
                return self.seq(ks, lambda a: k("(FloatOps.lt %s %s)" % (a[1][0], a[0][0]), "bool"))
            if op == ">=":
                return self.seq(ks, lambda a: k("(FloatOps.le %s %s)" % (a[1][0], a[0][0]), "bool"))
            raise Refuse("binary operator %s" % op)
        if kd == "ConditionalOperator":
            return self.ex(ks[0], lambda t, ty: "(if %s then\n%s\nelse\n%s)" % (t, self.ex(ks[1], k), self.ex(ks[2], k)))
        raise Refuse("expression node %s" % kd)

    # ---- statements ----------------------------------------------------------
    def body(self, stmts, ret):
        """ret(text, type) renders a `return`."""
        if not stmts:
            raise Refuse("control reaches the end of a non-void function")
        s, rest = stmts[0], stmts[1:]
        kd = s.get("kind")
        if kd == "CompoundStmt":
            return self.body(kids(s) + rest, ret)
        if kd == "NullStmt":
            return self.body(rest, ret)
        if kd == "DeclStmt":
            ds = kids(s)
            def go(i):
                if i == len(ds):
                    return self.body(rest, ret)
                d = ds[i]
                if d.get("kind") == "StaticAssertDecl":
                    return go(i + 1)
                if d.get("kind") != "VarDecl" or not kids(d):
                    raise Refuse("declaration %s" % d.get("kind"))
                if "const" not in d.get("type", {}).get("qualType", ""):
                    raise Refuse("mutable local %s" % d.get("name"))
                def bind(t, ty):
                    if ctype(d) != ty:
                        raise Refuse("local %s: declared %s, initialiser %s" % (d.get("name"), qtype(d), ty))
                    saved = dict(self.locals)
                    self.locals[d["name"]] = (t, ty)
                    r = go(i + 1)
                    self.locals = saved
                    return r
                return self.ex(kids(d)[0], bind)
            return go(0)
        if kd == "IfStmt":
            ks = kids(s)
            if s.get("hasInit") or s.get("hasVar"):
                raise Refuse("if with initialiser")
            def cond(t, ty):
                if ty != "bool":
                    raise Refuse("if condition of type %s" % ty)
                th = self.body([ks[1]] + rest, ret)
                el = self.body(([ks[2]] if s.get("hasElse") else []) + rest, ret)
                return "(if %s then\n%s\nelse\n%s)" % (t, th, el)
            return self.ex(ks[0], cond)
        if kd == "ReturnStmt":
            return self.ex(kids(s)[0], ret)
        raise Refuse("statement %s" % kd)


def indent(txt):
    """Re-indent the nested parentheses produced above (purely cosmetic)."""
    out, depth = [], 1
    for ln in txt.split("\n"):
        ln = ln.strip()
        lead = 0
        while lead < len(ln) and ln[lead] == ")":
            lead += 1
        out.append("  " * max(depth - (1 if ln.startswith(")") else 0), 1) + ln)
        depth += ln.count("(") - ln.count(")")
    return "\n".join(out)


def eval_body(m):
    body = [c for c in kids(m) if c.get("kind") == "CompoundStmt"][0]
    ps = [c for c in kids(m) if c.get("kind") == "ParmVarDecl"]
    if len(ps) != 1 or "symbol_params" not in qtype(ps[0]):
        raise Refuse("unexpected eval signature")
    tr = Tr()
    return tr.body([body], lambda t, ty: "(.ret %s)" % to_val(t, ty))


def translate():
    out = []
    docs = ast_dump("real_tu.cc", "vita::real")
    ns = [d for d in docs if d.get("kind") == "NamespaceDecl" and d.get("name") == "real"]
    if not ns:
        raise Refuse("namespace vita::real not found")
    for ns_doc in ns:
        for cls, m in records_with_method(ns_doc, "eval"):
            out.append((cls, eval_body(m)))
    docs = ast_dump("real_tu.cc", "vita::str")
    ns = [d for d in docs if d.get("kind") == "NamespaceDecl" and d.get("name") == "str"]
    if not ns:
        raise Refuse("namespace vita::str not found")
    for ns_doc in ns:
        for cls, m in records_with_method(ns_doc, "eval"):
            out.append(("s" + cls, eval_body(m)))
    if not out:
        raise Refuse("no primitive found")
    # issmall<double>
    docs = ast_dump("real_tu.cc", "vita::issmall")
    inst = []
    for d in docs:
        if d.get("kind") == "FunctionTemplateDecl" and d.get("name") == "issmall":
            for f in kids(d):
                if f.get("kind") == "FunctionDecl" and f.get("type", {}).get("qualType") == "bool (double)" and \
                        any(c.get("kind") == "CompoundStmt" for c in kids(f)):
                    inst.append(f)
    if len(inst) != 1:
        raise Refuse("issmall<double>: %d instantiations found" % len(inst))
    f = inst[0]
    ps = [c for c in kids(f) if c.get("kind") == "ParmVarDecl"]
    tr = Tr(pure=True)
    tr.locals[ps[0]["name"]] = ("v", "dbl")
    def retb(t, ty):
        if ty != "bool":
            raise Refuse("issmall returns %s" % ty)
        return t
    small = tr.body([c for c in kids(f) if c.get("kind") == "CompoundStmt"], retb)
    return out, small


def emit(path):
    prims, small = translate()
    L = ["-- GENERATED by tools/translate_real.py from src/kernel/gp/src/primitive/real.h, string.h and",
         "-- src/utility/utility.h (issmall) of the repo working tree; regenerated on every check run; do not edit",
         "import Vita.Common.Prog", "import Vita.Common.FloatOps", "namespace Vita.C13.Gen", "open Vita",
         "variable {F : Type} [FloatOps F]", "",
         "/-- `vita::issmall<double>` -/",
         "def issmall (v : F) : Bool :=\n" + indent(small), ""]
    for name, t in prims:
        L.append("def %sP : Prog F (Val F) :=\n%s\n" % (name, indent(t)))
    L.append("def prims : List (String × Prog F (Val F)) :=\n  [" +
             ", ".join('("%s", %sP)' % (n, n) for n, _ in prims) + "]")
    L.append("\ndef names : List String :=\n  [" + ", ".join('"%s"' % n for n, _ in prims) + "]")
    L.append("\nend Vita.C13.Gen\n")
    txt = "\n".join(L)
    old = open(path).read() if os.path.exists(path) else None
    if old != txt:
        os.makedirs(os.path.dirname(path), exist_ok=True)
        with open(path, "w") as f:
            f.write(txt)
    return [n for n, _ in prims], old is not None and old != txt


# ---------------------------------------------------------------------------------------------
# Everything else a program is made of -> lean/Vita/C13/GenExt.lean:
#   * the class / member tables of EVERY header of src/kernel/gp/src/primitive/ (from the AST),
#   * the boolean primitives (bool.h), the terminals `variable` and `constant<T>`,
#   * `init()` of the parametric terminals real::real / real::integer,
#   * the constant boolean members (parametric / associative / input),
#   * `comparison_function_penalty` (comp_penalty.h), the body of every `penalty_nvi`.
# ---------------------------------------------------------------------------------------------
import prim_classes  # noqa: E402


def only_return(m):
    body = [c for c in kids(m) if c.get("kind") == "CompoundStmt"]
    return body


def class_fields(cdecl):
    return [(c.get("name"), c) for c in kids(cdecl) if c.get("kind") == "FieldDecl"]


def find_class(ns_doc, name):
    for c in kids(ns_doc):
        if c.get("kind") == "CXXRecordDecl" and c.get("completeDefinition") and c.get("name") == name:
            return c
    return None


def penalty_fn():
    """`comparison_function_penalty` -> a Lean term over `idx k` = `i->fetch_index(k)`"""
    docs = ast_dump("real_ext_tu.cc", "vita::comparison_function_penalty")
    fs = [d for d in docs if d.get("kind") == "FunctionDecl" and d.get("name") == "comparison_function_penalty" and
          any(c.get("kind") == "CompoundStmt" for c in kids(d))]
    if len(fs) != 1:
        raise Refuse("comparison_function_penalty: %d definitions" % len(fs))
    f = fs[0]
    if f.get("type", {}).get("qualType") != "double (vita::core_interpreter *)":
        raise Refuse("comparison_function_penalty has type %r" % f.get("type", {}).get("qualType"))
    loc = {}
    interp = set()

    def ex(n):
        kd, ks = n.get("kind"), kids(n)
        if kd in WRAP:
            return ex(ks[0])
        if kd == "ImplicitCastExpr":
            ck = n.get("castKind")
            if ck in ("LValueToRValue", "NoOp"):
                return ex(ks[0])
            if ck == "IntegralCast":
                t, ty = ex(ks[0])
                if ty == "bool":
                    return "(Vita.IntE.b2i %s)" % t, "int"
                if ty in ("int", "idx"):
                    return t, ty
                raise Refuse("integral cast of %s" % ty)
            if ck == "IntegralToFloating":
                t, ty = ex(ks[0])
                if ty != "int":
                    raise Refuse("integral-to-floating of %s" % ty)
                return "(FloatOps.ofInt %s)" % t, "dbl"
            raise Refuse("cast %s" % ck)
        if kd == "IntegerLiteral":
            return "%d" % int(n["value"]), "int"
        if kd == "DeclRefExpr":
            name = n.get("referencedDecl", {}).get("name")
            if name in loc:
                return loc[name]
            raise Refuse("reference to %r" % name)
        if kd == "CXXMemberCallExpr" and callee_name(n) == "fetch_index" and len(ks) == 2:
            o = peel(kids(ks[0])[0])
            while o.get("kind") == "ImplicitCastExpr":
                o = kids(o)[0]
            if not (o.get("kind") == "DeclRefExpr" and o.get("referencedDecl", {}).get("name") in interp):
                raise Refuse("fetch_index on something that is not the interpreter")
            a = peel(ks[1])
            while a.get("kind") == "ImplicitCastExpr":
                a = kids(a)[0]
            if a.get("kind") != "IntegerLiteral":
                raise Refuse("fetch_index of a non-literal position")
            return "(idx %d)" % int(a["value"]), "idx"
        if kd == "BinaryOperator":
            op = n.get("opcode")
            (a, ta), (b, tb) = ex(ks[0]), ex(ks[1])
            if op == "==" and ta == tb == "idx":
                return "(decide (%s = %s))" % (a, b), "bool"
            if op == "!=" and ta == tb == "idx":
                return "(decide (%s ≠ %s))" % (a, b), "bool"
            if op in ("+", "-", "*") and ta == tb == "int":
                return "(%s %s %s)" % (a, op, b), "int"
            raise Refuse("operator %s on %s, %s" % (op, ta, tb))
        raise Refuse("penalty expression node %s" % kd)

    body = [c for c in kids(f) if c.get("kind") == "CompoundStmt"][0]
    ps = [c for c in kids(f) if c.get("kind") == "ParmVarDecl"]
    for st in kids(body):
        if st.get("kind") == "DeclStmt":
            for d in kids(st):
                if d.get("kind") != "VarDecl" or not kids(d):
                    raise Refuse("penalty declaration %s" % d.get("kind"))
                init = kids(d)[0]
                if init.get("kind") == "CXXStaticCastExpr" and init.get("castKind") == "BaseToDerived":
                    src = peel(kids(init)[0])
                    while src.get("kind") == "ImplicitCastExpr":
                        src = kids(src)[0]
                    if src.get("referencedDecl", {}).get("name") != ps[0].get("name"):
                        raise Refuse("the interpreter is not the function's argument")
                    interp.add(d["name"])
                    continue
                if "const" not in d.get("type", {}).get("qualType", ""):
                    raise Refuse("mutable local %s" % d.get("name"))
                loc[d["name"]] = ex(init)
        elif st.get("kind") == "ReturnStmt":
            t, ty = ex(kids(st)[0])
            if ty != "dbl":
                raise Refuse("comparison_function_penalty returns %s" % ty)
            return t
        else:
            raise Refuse("penalty statement %s" % st.get("kind"))
    raise Refuse("comparison_function_penalty has no return")


def translate_ext():
    scan = prim_classes.header_scan()
    nss = sorted({n for h in scan.values() for n in h["namespaces"]})
    classes, funcs, flags, pens, bodies, inits = [], [], [], [], [], []
    seen_ns = {}
    for q in nss:
        if q == "vita":
            continue            # comp_penalty.h / factory.h: handled below (free function / non-symbol class)
        short = q.split("::")[-1]
        docs = ast_dump("real_ext_tu.cc", q) if q != "vita::integer" else ast_dump("int_tu.cc", q)
        ns = [d for d in docs if d.get("kind") == "NamespaceDecl" and d.get("name") == short]
        if not ns:
            raise Refuse("namespace %s (opened by a header of primitive/) not found in the AST" % q)
        seen_ns[q] = ns
        for ns_doc in ns:
            tab = prim_classes.class_table(ns_doc)
            classes += [(short + "::" + c, b, ms, h) for c, b, ms, h in tab]
            funcs += [short + "::" + f for f in prim_classes.free_functions(ns_doc)]
            if q == "vita::integer":
                continue        # the members of the integer family are C14's (tools/translate_int.py)
            for cls, base, methods, hdr in tab:
                cdecl = find_class(ns_doc, cls)
                for mn in methods:
                    m = prim_classes.method(ns_doc, cls, mn)
                    if mn in ("parametric", "associative", "input"):
                        flags.append((short + "::" + cls, mn, prim_classes.bool_flag(m)))
                    elif mn == "penalty_nvi":
                        st = kids([c for c in kids(m) if c.get("kind") == "CompoundStmt"][0])
                        e = peel(kids(st[0])[0]) if len(st) == 1 and st[0].get("kind") == "ReturnStmt" else {}
                        if not (e.get("kind") == "CallExpr" and callee_name(e) == "comparison_function_penalty"):
                            raise Refuse("%s::penalty_nvi is not `return comparison_function_penalty(ci)`" % cls)
                        pens.append(short + "::" + cls)
                    elif mn == "init":
                        fl = {}
                        for fname, fd in class_fields(cdecl):
                            fl[fname] = (fname, ctype(fd))
                        tr = Tr(pure=True, fields=fl)
                        def reti(t, ty):
                            if ty != "dbl":
                                raise Refuse("%s::init returns %s" % (cls, ty))
                            return t
                        term = tr.body([c for c in kids(m) if c.get("kind") == "CompoundStmt"], reti)
                        inits.append((short, cls, [(a, b[1]) for a, b in fl.items()], term))
                    elif mn == "eval":
                        if short in ("real", "str"):
                            continue      # Gen.lean (translate())
                        bodies.append((short + "_" + cls, "`vita::%s::%s::eval`" % (short, cls), "", eval_body(m)))
                    elif mn == "display":
                        pass
                    else:
                        raise Refuse("member %s::%s::%s has a body the translator does not know" % (short, cls, mn))
    # cross-check: every class spelled in a header is in the AST table (factory.h's symbol_factory is not a symbol)
    names = {c.split("::")[-1] for c, _, _, _ in classes}
    other = []
    for h, info in scan.items():
        for c in info["classes"]:
            if c not in names:
                other.append((h, c))
    docs = ast_dump("real_ext_tu.cc", "vita::symbol_factory")
    nonsym = []
    def recs(n, out):
        if n.get("kind") == "CXXRecordDecl" and n.get("completeDefinition") and not n.get("isImplicit"):
            out.append(n)
        for c in n.get("inner", []):
            if isinstance(c, dict):
                recs(c, out)
        return out
    frecs = []
    for d in docs:
        recs(d, frecs)
    for h, c in other:
        m = [r for r in frecs if r.get("name") == c]
        if not m or any(r.get("bases") for r in m):
            raise Refuse("class %s of %s is in no namespace table and is not a base-less helper of the factory" % (c, h))
        nonsym.append(c)
    # variable / constant<T>
    docs = ast_dump("real_ext_tu.cc", "vita::variable")
    vs = [d for d in docs if d.get("kind") == "CXXRecordDecl" and d.get("name") == "variable" and d.get("completeDefinition")]
    if len(vs) != 1:
        raise Refuse("vita::variable: %d definitions" % len(vs))
    v = vs[0]
    vm = {m.get("name"): m for m in kids(v) if m.get("kind") == "CXXMethodDecl" and not m.get("isImplicit") and
          any(k.get("kind") == "CompoundStmt" for k in kids(m))}
    classes.append(("variable", (v.get("bases", [{}])[0].get("type", {}).get("qualType", "-")).replace("vita::", ""),
                    list(vm), "variable.h"))
    for mn, m in vm.items():
        if mn == "input":
            flags.append(("variable", "input", prim_classes.bool_flag(m)))
        elif mn == "eval":
            tr = Tr(fields={"var_": ("k", "uint")})
            bodies.append(("variable", "`vita::variable::eval` (k = var_)", "(k : Nat) ",
                           tr.body([c for c in kids(m) if c.get("kind") == "CompoundStmt"],
                                   lambda t, ty: "(.ret %s)" % to_val(t, ty))))
        elif mn != "display":
            raise Refuse("member variable::%s" % mn)
    docs = ast_dump("real_ext_tu.cc", "vita::constant")
    specs = [d for d in docs if d.get("kind") == "ClassTemplateSpecializationDecl" and d.get("name") == "constant" and
             d.get("completeDefinition")]
    kinds = {}
    for sp in specs:
        ms = {}
        for m in kids(sp):
            if m.get("kind") == "CXXMethodDecl" and not m.get("isImplicit") and \
                    any(k.get("kind") == "CompoundStmt" for k in kids(m)):
                ms.setdefault(m.get("name"), []).append(m)
        fd = dict(class_fields(sp)).get("val_")
        if fd is None or "eval" not in ms:
            raise Refuse("constant<T>: no val_ / eval")
        ty = ctype(fd)
        lean_ty = {"dbl": "F", "int": "Int", "str": "String"}.get(ty)
        if lean_ty is None:
            raise Refuse("constant<%s>" % qtype(fd))
        ev1 = [m for m in ms["eval"] if any(c.get("kind") == "ParmVarDecl" for c in kids(m))]
        ev0 = [m for m in ms["eval"] if not any(c.get("kind") == "ParmVarDecl" for c in kids(m))]
        if len(ev1) != 1 or len(ev0) != 1:
            raise Refuse("constant<T>::eval overloads")
        tr = Tr(fields={"val_": ("c", ty)}, methods={"eval": ev0[0]})
        body = tr.body([c for c in kids(ev1[0]) if c.get("kind") == "CompoundStmt"],
                       lambda t, ty_: "(.ret %s)" % to_val(t, ty_))
        nm = {"dbl": "constant_double", "int": "constant_int", "str": "constant_string"}[ty]
        kinds[nm] = (lean_ty, body, sorted(ms))
    for nm in sorted(kinds):
        lean_ty, body, ms = kinds[nm]
        classes.append((nm.replace("_", "<") + ">", "terminal", ms, "constant.h"))
        for mn in ms:
            if mn not in ("eval", "display", "quote_str"):     # quote_str: static helper of display / the name
                raise Refuse("member %s::%s" % (nm, mn))
        bodies.append((nm, "`vita::constant<T>::eval` (c = val_)", "(c : %s) " % lean_ty, body))
    if set(kinds) != {"constant_double", "constant_int", "constant_string"}:
        raise Refuse("constant<T> instantiations found: %s" % sorted(kinds))
    return dict(headers=sorted(scan), nonsym=sorted(set(nonsym)), classes=classes, funcs=funcs, flags=flags, pens=pens, bodies=bodies,
                inits=inits, penalty=penalty_fn())


def emit_ext(path):
    t = translate_ext()
    L = ["-- GENERATED by tools/translate_real.py from src/kernel/gp/src/primitive/*.h, src/kernel/gp/src/variable.h and",
         "-- constant.h of the repo working tree; regenerated on every check run; do not edit",
         "import Vita.Common.Prog", "import Vita.Common.FloatOps", "import Vita.Common.IntE",
         "namespace Vita.C13.GenExt", "open Vita", "variable {F : Type} [FloatOps F]", ""]
    L.append("/-- the headers of src/kernel/gp/src/primitive/ -/")
    L.append("def headers : List String := " + prim_classes.lean_str_list(t["headers"]) + "\n")
    L.append("/-- every symbol class of those headers (+ variable.h, constant.h): (class, base, members defined with a body, header) -/")
    L.append("def classes : List (String × String × List String × String) :=\n  [" + ",\n   ".join(
        '("%s", "%s", %s, "%s")' % (c, b, prim_classes.lean_str_list(ms), h) for c, b, ms, h in t["classes"]) + "]\n")
    L.append("/-- classes of those headers that are not symbols (no base class): the factory and its helper -/")
    L.append("def otherClasses : List String := " + prim_classes.lean_str_list(t["nonsym"]) + "\n")
    L.append("/-- free functions of the primitive namespaces -/")
    L.append("def functions : List String := " + prim_classes.lean_str_list(t["funcs"]) + "\n")
    L.append("/-- constant boolean members: (class, member, value) -/")
    L.append("def flags : List (String × String × Bool) :=\n  [" + ", ".join(
        '("%s", "%s", %s)' % (c, m, "true" if v else "false") for c, m, v in t["flags"]) + "]\n")
    L.append("/-- classes whose `penalty_nvi` is `comparison_function_penalty(ci)` -/")
    L.append("def penalties : List String := " + prim_classes.lean_str_list(t["pens"]) + "\n")
    L.append("/-- `vita::comparison_function_penalty`; `idx k` is `i->fetch_index(k)` -/")
    L.append("def compPenalty (idx : Nat → Nat) : F :=\n  " + t["penalty"] + "\n")
    for nm, doc, params, body in t["bodies"]:
        L.append("/-- %s -/\ndef %sP %s: Prog F (Val F) :=\n%s\n" % (doc, nm, params, indent(body)))
    for ns, cls, fields, term in t["inits"]:
        tys = {"dbl": "F", "int": "Int"}
        if all(ty == "dbl" for _, ty in fields):
            sig = "(betweenD : F → F → F) "
        elif all(ty == "int" for _, ty in fields):
            sig = "(between : Int → Int → Int) "
        else:
            raise Refuse("%s::%s has members of mixed types" % (ns, cls))
        L.append("/-- `vita::%s::%s::init`; `between%s` stands for `random::between` -/\ndef %s_%sInit %s%s: F :=\n  %s\n" % (
            ns, cls, "D" if "betweenD" in sig else "", ns, cls, sig,
            "".join("(%s : %s) " % (f, tys[ty]) for f, ty in fields), term))
    def body_of(c):
        ns, _, nm = c.rpartition("::")
        if ns in ("real",):
            return "C13.Gen.%sP" % nm
        if ns == "str":
            return "C13.Gen.s%sP" % nm
        if ns == "integer":
            return "C14.GenNum.numberEval" if nm == "number" else "C14.Gen.%sE" % nm
        if ns == "boolean":
            return "C13.GenExt.boolean_%sP" % nm
        return "C13.GenExt.%sP" % c.replace("<", "_").replace(">", "")
    L.append("/-- class ↦ the generated definition of its `eval` body -/")
    L.append("def bodyOf : List (String × String) :=\n  [" + ",\n   ".join(
        '("%s", "%s")' % (c, body_of(c)) for c, _, ms, _ in t["classes"] if "eval" in ms) + "]\n")
    L.append("def bodyNames : List String := " + prim_classes.lean_str_list([b[0] for b in t["bodies"]]) + "\n")
    L.append("end Vita.C13.GenExt\n")
    txt = "\n".join(L)
    old = open(path).read() if os.path.exists(path) else None
    if old != txt:
        os.makedirs(os.path.dirname(path), exist_ok=True)
        with open(path, "w") as f:
            f.write(txt)
    return t, old is not None and old != txt


if __name__ == "__main__":
    here = os.path.dirname(os.path.dirname(os.path.abspath(__file__)))
    try:
        names, changed = emit(os.path.join(here, "lean", "Vita", "C13", "Gen.lean"))
        print("translated:", " ".join(names), "(changed)" if changed else "")
        t, changed = emit_ext(os.path.join(here, "lean", "Vita", "C13", "GenExt.lean"))
        print("classes:", " ".join(c[0] for c in t["classes"]), "(changed)" if changed else "")
    except Refuse as e:
        print("REFUSE:", e)
        sys.exit(2)
