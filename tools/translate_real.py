#!/usr/bin/env python3
"""Translate every `eval` body of `vita::real::*` (real.h), `vita::str::*` (string.h) and the
`issmall<double>` helper (utility.h) of the *current* repo working tree into Lean terms
(syntax only) -> lean/Vita/C13/Gen.lean.

An `eval` body becomes a term of `Vita.Prog F (Val F)` (interaction tree over an abstract
`FloatOps F`): `args[i]` is `.fetch i fun v => …`, `p.fetch_param()` is `.param fun p => …`,
`base(v)` / `std::get<T>(v)` are `Val.withDbl v fun x => …` (the `bad_variant_access` exit is
`.throw`), early returns / `if` / `?:` are Lean `if … then … else`, arithmetic and libm calls
are the `FloatOps` fields.  The translation is in continuation-passing style, so the order of
the requests is the C++ evaluation order.

Refuses (exit 2 / raises `Refuse`) on anything it does not understand – never skips code."""
import os
import struct
import sys

sys.path.insert(0, os.path.dirname(os.path.abspath(__file__)))
from cxx2lean import Refuse, ast_dump, kids, qtype, peel, callee_name, records_with_method, find_all

WRAP = {"ExprWithCleanups", "MaterializeTemporaryExpr", "CXXBindTemporaryExpr", "ParenExpr", "ConstantExpr"}
PASS_CASTS = {"NoOp", "LValueToRValue", "ConstructorConversion", "FunctionToPointerDecay"}
UN1 = {"fabs": "fabs", "abs": "fabs", "floor": "floor", "sqrt": "sqrt", "log": "log", "exp": "exp",
       "sin": "sin", "cos": "cos"}
BIN2 = {"fmod": "fmod", "fmin": "fmin", "fmax": "fmax"}
ARITH = {"+": "add", "-": "sub", "*": "mul", "/": "div"}


def dbl_bits(x):
    return struct.unpack("<Q", struct.pack("<d", x))[0]


def lit(x):
    return "(FloatOps.ofBits 0x%016X)" % dbl_bits(x)


def ctype(n):
    """Lean-side type tag of a C++ expression node."""
    t = qtype(n).replace("const ", "").strip()
    if t in ("vita::value_t", "std::variant<std::monostate, int, double, std::basic_string<char>>",
             "variant<std::monostate, int, double, std::basic_string<char>>"):
        return "val"
    if t in ("double", "vita::real::base_t", "vita::terminal_param_t"):
        return "dbl"
    if t == "bool":
        return "bool"
    if t in ("unsigned long", "std::basic_string<char>::size_type", "std::size_t", "size_t"):
        return "nat"
    if t in ("std::basic_string<char>", "std::string", "vita::D_STRING", "basic_string<char>"):
        return "str"
    raise Refuse("expression of unsupported type %r (%s)" % (qtype(n), n.get("kind")))


def has_effect(n):
    """Does evaluating n request an argument / parameter or possibly throw?"""
    def pred(x):
        k = x.get("kind")
        if k == "CXXOperatorCallExpr" and callee_name(x) == "operator[]":
            return True
        if k == "CXXMemberCallExpr" and callee_name(x) in ("fetch_param", "fetch_arg", "fetch_var",
                                                          "fetch_opaque_arg"):
            return True
        if k == "CallExpr" and callee_name(x) in ("base", "get", "cast"):
            return True
        return False
    return bool(find_all(n, pred))


def has_fetch(n):
    def pred(x):
        k = x.get("kind")
        if k == "CXXOperatorCallExpr" and callee_name(x) == "operator[]":
            return True
        if k == "CXXMemberCallExpr" and callee_name(x) in ("fetch_arg", "fetch_opaque_arg"):
            return True
        return False
    return bool(find_all(n, pred))


def to_val(t, ty):
    if ty == "val":
        return t
    if ty == "dbl":
        return "(Val.dbl %s)" % t
    if ty == "bool":
        return "(Val.ofBool %s)" % t
    if ty == "str":
        return "(Val.str %s)" % t
    raise Refuse("cannot build a value_t from a %s" % ty)


class Tr:
    def __init__(self, pure=False):
        self.locals = {}
        self.n = 0
        self.pure = pure        # translating a plain function (no Prog context)

    def fresh(self, p):
        self.n += 1
        return "%s%d" % (p, self.n)

    # ---- expressions (CPS: k(text, type) -> text of the rest) -------------------
    def seq(self, nodes, k):
        """Evaluate nodes left to right, then k([(text, type)…]).  C++ leaves the order of
        operands unspecified: that is harmless for `throw` (one exception type, no state),
        refused when two operands request arguments."""
        if sum(1 for x in nodes if has_fetch(x)) > 1:
            raise Refuse("two operands of one operator request arguments (unspecified order)")
        def go(i, acc):
            if i == len(nodes):
                return k(acc)
            return self.ex(nodes[i], lambda t, ty: go(i + 1, acc + [(t, ty)]))
        return go(0, [])

    def arg_index(self, n):
        p = peel(n)
        while p.get("kind") == "ImplicitCastExpr" and p.get("castKind") == "IntegralCast":
            p = peel(kids(p)[0])
        if p.get("kind") != "IntegerLiteral":
            raise Refuse("non-literal argument index")
        return int(p["value"])

    def ex(self, n, k):
        kd = n.get("kind")
        ks = kids(n)
        if kd in WRAP:
            return self.ex(ks[0], k)
        if kd in ("ImplicitCastExpr", "CXXStaticCastExpr", "CXXFunctionalCastExpr", "CStyleCastExpr"):
            ck = n.get("castKind")
            if ck in PASS_CASTS:
                return self.ex(ks[-1], k)
            if ck == "IntegralToFloating":
                def conv(t, ty):
                    if ty != "nat":
                        raise Refuse("integral-to-floating conversion from %s" % ty)
                    return k("(FloatOps.ofNat %s)" % t, "dbl")
                return self.ex(ks[-1], conv)
            raise Refuse("cast kind %s" % ck)
        if kd in ("CXXConstructExpr", "CXXTemporaryObjectExpr"):
            if ctype(n) != "val":
                raise Refuse("construction of %s" % qtype(n))
            if not ks:
                return k("Val.void", "val")
            if len(ks) != 1:
                raise Refuse("value_t constructor with %d arguments" % len(ks))
            return self.ex(ks[0], lambda t, ty: k(to_val(t, ty), "val"))
        if kd == "FloatingLiteral":
            if ctype(n) != "dbl":
                raise Refuse("floating literal of type %s" % qtype(n))
            return k(lit(float(n["value"])), "dbl")
        if kd == "CXXBoolLiteralExpr":
            return k("true" if n["value"] else "false", "bool")
        if kd == "DeclRefExpr":
            name = n.get("referencedDecl", {}).get("name")
            if name in self.locals:
                return k(*self.locals[name])
            raise Refuse("reference to unknown variable %r" % name)
        if kd == "CXXOperatorCallExpr":
            name = callee_name(n)
            if name == "operator[]":
                base = peel(ks[1])
                if not (base.get("kind") == "DeclRefExpr" and "symbol_params" in qtype(base)):
                    raise Refuse("operator[] on something that is not the symbol_params")
                if self.pure:
                    raise Refuse("argument request in a plain function")
                i = self.arg_index(ks[2])
                v = self.fresh("v")
                return "(.fetch %d fun %s =>\n%s)" % (i, v, k(v, "val"))
            if name == "operator==" and len(ks) == 3 and ctype(ks[1]) == "val" and ctype(ks[2]) == "val":
                return self.seq(ks[1:], lambda a: k("(Val.eqv %s %s)" % (a[0][0], a[1][0]), "bool"))
            raise Refuse("overloaded operator %s" % name)
        if kd == "CXXMemberCallExpr":
            name = callee_name(n)
            obj = peel(kids(ks[0])[0]) if ks and kids(ks[0]) else {}
            if name == "fetch_param" and "symbol_params" in qtype(obj) and len(ks) == 1:
                if self.pure:
                    raise Refuse("parameter request in a plain function")
                p = self.fresh("p")
                return "(.param fun %s =>\n%s)" % (p, k(p, "dbl"))
            if name in ("length", "size") and len(ks) == 1 and ctype(obj) == "str":
                return self.ex(obj, lambda t, ty: k("(String.utf8ByteSize %s)" % t, "nat"))
            raise Refuse("member call %s" % name)
        if kd == "CallExpr":
            name = callee_name(n)
            f = peel(ks[0])
            ftype = f.get("type", {}).get("qualType", "")
            args = ks[1:]
            if name == "has_value" and len(args) == 1:
                return self.ex(args[0], lambda t, ty: k("(Val.hasValue %s)" % t, "bool"))
            if name == "base" and len(args) == 1 and ftype.startswith("vita::real::base_t (const vita::value_t &)"):
                if self.pure:
                    raise Refuse("base() in a plain function")
                x = self.fresh("x")
                return self.ex(args[0], lambda t, ty: "(Val.withDbl %s fun %s =>\n%s)" % (t, x, k(x, "dbl")))
            if name == "get" and len(args) == 1 and ctype(args[0]) == "val":
                if self.pure:
                    raise Refuse("std::get in a plain function")
                rt = ctype(n)
                w = {"dbl": "withDbl", "str": "withStr"}.get(rt)
                if w is None:
                    raise Refuse("std::get to %s" % rt)
                x = self.fresh("x" if rt == "dbl" else "s")
                return self.ex(args[0], lambda t, ty: "(Val.%s %s fun %s =>\n%s)" % (w, t, x, k(x, rt)))
            if name == "isfinite" and len(args) == 1 and ftype.startswith("bool (double)"):
                return self.ex(args[0], lambda t, ty: k("(FloatOps.isFinite %s)" % t, "bool"))
            if name in ("isless", "isgreater") and len(args) == 2 and ftype.startswith("bool (double, double)"):
                def cmp2(a):
                    (x, _), (y, _) = a
                    return k("(FloatOps.lt %s %s)" % ((x, y) if name == "isless" else (y, x)), "bool")
                return self.seq(args, cmp2)
            if name in UN1 and len(args) == 1 and ftype.startswith("double (double)"):
                return self.ex(args[0], lambda t, ty: k("(FloatOps.%s %s)" % (UN1[name], t), "dbl"))
            if name in BIN2 and len(args) == 2 and ftype.startswith("double (double, double)"):
                return self.seq(args, lambda a: k("(FloatOps.%s %s %s)" % (BIN2[name], a[0][0], a[1][0]), "dbl"))
            if name == "issmall" and len(args) == 1 and ftype.startswith("bool (double)"):
                return self.ex(args[0], lambda t, ty: k("(issmall %s)" % t, "bool"))
            if name == "epsilon" and not args and ftype.startswith("double ()"):
                return k(lit(2.0 ** -52), "dbl")
            raise Refuse("call to %r of type %r" % (name, ftype))
        if kd == "UnaryOperator":
            op = n.get("opcode")
            if op == "!" and ctype(n) == "bool":
                return self.ex(ks[0], lambda t, ty: k("(!%s)" % t, "bool"))
            if op == "-" and ctype(n) == "dbl":
                return self.ex(ks[0], lambda t, ty: k("(FloatOps.neg %s)" % t, "dbl"))
            if op == "+" and ctype(n) == "dbl":
                return self.ex(ks[0], k)
            raise Refuse("unary operator %s" % op)
        if kd == "BinaryOperator":
            op = n.get("opcode")
            if op in ("&&", "||"):
                if has_effect(ks[1]):
                    def sc(t, ty):
                        if op == "&&":
                            return "(if %s then\n%s\nelse\n%s)" % (t, self.ex(ks[1], k), k("false", "bool"))
                        return "(if %s then\n%s\nelse\n%s)" % (t, k("true", "bool"), self.ex(ks[1], k))
                    return self.ex(ks[0], sc)
                return self.seq(ks, lambda a: k("(%s %s %s)" % (a[0][0], op, a[1][0]), "bool"))
            if ctype(ks[0]) != "dbl" or ctype(ks[1]) != "dbl":
                raise Refuse("binary operator %s on %s, %s" % (op, qtype(ks[0]), qtype(ks[1])))
            if op in ARITH:
                return self.seq(ks, lambda a: k("(FloatOps.%s %s %s)" % (ARITH[op], a[0][0], a[1][0]), "dbl"))
            cmpf = {"<": "(FloatOps.lt %s %s)", "<=": "(FloatOps.le %s %s)", "==": "(FloatOps.eq %s %s)",
                    "!=": "(!(FloatOps.eq %s %s))"}
            if op in cmpf:
                return self.seq(ks, lambda a: k(cmpf[op] % (a[0][0], a[1][0]), "bool"))
            if op == ">":
                return self.seq(ks, lambda a: k("(FloatOps.lt %s %s)" % (a[1][0], a[0][0]), "bool"))
            if op == ">=":
                return self.seq(ks, lambda a: k("(FloatOps.le %s %s)" % (a[1][0], a[0][0]), "bool"))
            raise Refuse("binary operator %s" % op)
        if kd == "ConditionalOperator":
            return self.ex(ks[0], lambda t, ty: "(if %s then\n%s\nelse\n%s)" % (t, self.ex(ks[1], k), self.ex(ks[2], k)))
        raise Refuse("expression node %s" % kd)

    # ---- statements ----------------------------------------------------------
    def body(self, stmts, ret):
        """ret(text, type) renders a `return`."""
        if not stmts:
            raise Refuse("control reaches the end of a non-void function")
        s, rest = stmts[0], stmts[1:]
        kd = s.get("kind")
        if kd == "CompoundStmt":
            return self.body(kids(s) + rest, ret)
        if kd == "NullStmt":
            return self.body(rest, ret)
        if kd == "DeclStmt":
            ds = kids(s)
            def go(i):
                if i == len(ds):
                    return self.body(rest, ret)
                d = ds[i]
                if d.get("kind") == "StaticAssertDecl":
                    return go(i + 1)
                if d.get("kind") != "VarDecl" or not kids(d):
                    raise Refuse("declaration %s" % d.get("kind"))
                if "const" not in d.get("type", {}).get("qualType", ""):
                    raise Refuse("mutable local %s" % d.get("name"))
                def bind(t, ty):
                    if ctype(d) != ty:
                        raise Refuse("local %s: declared %s, initialiser %s" % (d.get("name"), qtype(d), ty))
                    saved = dict(self.locals)
                    self.locals[d["name"]] = (t, ty)
                    r = go(i + 1)
                    self.locals = saved
                    return r
                return self.ex(kids(d)[0], bind)
            return go(0)
        if kd == "IfStmt":
            ks = kids(s)
            if s.get("hasInit") or s.get("hasVar"):
                raise Refuse("if with initialiser")
            def cond(t, ty):
                if ty != "bool":
                    raise Refuse("if condition of type %s" % ty)
                th = self.body([ks[1]] + rest, ret)
                el = self.body(([ks[2]] if s.get("hasElse") else []) + rest, ret)
                return "(if %s then\n%s\nelse\n%s)" % (t, th, el)
            return self.ex(ks[0], cond)
        if kd == "ReturnStmt":
            return self.ex(kids(s)[0], ret)
        raise Refuse("statement %s" % kd)


def indent(txt):
    """Re-indent the nested parentheses produced above (purely cosmetic)."""
    out, depth = [], 1
    for ln in txt.split("\n"):
        ln = ln.strip()
        lead = 0
        while lead < len(ln) and ln[lead] == ")":
            lead += 1
        out.append("  " * max(depth - (1 if ln.startswith(")") else 0), 1) + ln)
        depth += ln.count("(") - ln.count(")")
    return "\n".join(out)


def eval_body(m):
    body = [c for c in kids(m) if c.get("kind") == "CompoundStmt"][0]
    ps = [c for c in kids(m) if c.get("kind") == "ParmVarDecl"]
    if len(ps) != 1 or "symbol_params" not in qtype(ps[0]):
        raise Refuse("unexpected eval signature")
    tr = Tr()
    return tr.body([body], lambda t, ty: "(.ret %s)" % to_val(t, ty))


def translate():
    out = []
    docs = ast_dump("real_tu.cc", "vita::real")
    ns = [d for d in docs if d.get("kind") == "NamespaceDecl" and d.get("name") == "real"]
    if not ns:
        raise Refuse("namespace vita::real not found")
    for ns_doc in ns:
        for cls, m in records_with_method(ns_doc, "eval"):
            out.append((cls, eval_body(m)))
    docs = ast_dump("real_tu.cc", "vita::str")
    ns = [d for d in docs if d.get("kind") == "NamespaceDecl" and d.get("name") == "str"]
    if not ns:
        raise Refuse("namespace vita::str not found")
    for ns_doc in ns:
        for cls, m in records_with_method(ns_doc, "eval"):
            out.append(("s" + cls, eval_body(m)))
    if not out:
        raise Refuse("no primitive found")
    # issmall<double>
    docs = ast_dump("real_tu.cc", "vita::issmall")
    inst = []
    for d in docs:
        if d.get("kind") == "FunctionTemplateDecl" and d.get("name") == "issmall":
            for f in kids(d):
                if f.get("kind") == "FunctionDecl" and f.get("type", {}).get("qualType") == "bool (double)" and \
                        any(c.get("kind") == "CompoundStmt" for c in kids(f)):
                    inst.append(f)
    if len(inst) != 1:
        raise Refuse("issmall<double>: %d instantiations found" % len(inst))
    f = inst[0]
    ps = [c for c in kids(f) if c.get("kind") == "ParmVarDecl"]
    tr = Tr(pure=True)
    tr.locals[ps[0]["name"]] = ("v", "dbl")
    def retb(t, ty):
        if ty != "bool":
            raise Refuse("issmall returns %s" % ty)
        return t
    small = tr.body([c for c in kids(f) if c.get("kind") == "CompoundStmt"], retb)
    return out, small


def emit(path):
    prims, small = translate()
    L = ["-- GENERATED by tools/translate_real.py from src/kernel/gp/src/primitive/real.h, string.h and",
         "-- src/utility/utility.h (issmall) of the repo working tree; regenerated on every check run; do not edit",
         "import Vita.Common.Prog", "import Vita.Common.FloatOps", "namespace Vita.C13.Gen", "open Vita",
         "variable {F : Type} [FloatOps F]", "",
         "/-- `vita::issmall<double>` -/",
         "def issmall (v : F) : Bool :=\n" + indent(small), ""]
    for name, t in prims:
        L.append("def %sP : Prog F (Val F) :=\n%s\n" % (name, indent(t)))
    L.append("def prims : List (String × Prog F (Val F)) :=\n  [" +
             ", ".join('("%s", %sP)' % (n, n) for n, _ in prims) + "]")
    L.append("\ndef names : List String :=\n  [" + ", ".join('"%s"' % n for n, _ in prims) + "]")
    L.append("\nend Vita.C13.Gen\n")
    txt = "\n".join(L)
    old = open(path).read() if os.path.exists(path) else None
    if old != txt:
        os.makedirs(os.path.dirname(path), exist_ok=True)
        with open(path, "w") as f:
            f.write(txt)
    return [n for n, _ in prims], old is not None and old != txt


if __name__ == "__main__":
    here = os.path.dirname(os.path.dirname(os.path.abspath(__file__)))
    try:
        names, changed = emit(os.path.join(here, "lean", "Vita", "C13", "Gen.lean"))
        print("translated:", " ".join(names), "(changed)" if changed else "")
    except Refuse as e:
        print("REFUSE:", e)
        sys.exit(2)
