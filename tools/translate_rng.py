#!/usr/bin/env python3
"""Translator for C07: the stream operators of vigna::xoshiro256ss.

From the clang AST of /repo's current src/utility/xoshiro256ss.cc it extracts, *syntax only*,

  operator<<(ostream&, const xoshiro256ss&)  ->  the list of things written, in order:
                                                  `.st i` (e.state[i], decimal) | `.ch c` (a character)
  operator>>(istream&, xoshiro256ss&)        ->  the list of indices i of the e.state[i] read into
  the declared size of `state`

and writes lean/Vita/C07/Gen.lean.  Any other statement or expression shape is refused.
"""
import os
import re
import sys

sys.path.insert(0, os.path.dirname(os.path.abspath(__file__)))
from cxx2lean import Refuse, ast_dump, kids, peel, qtype  # noqa: E402

ENGINE = "vigna::xoshiro256ss"


def body_of(docs, op, const):
    cands = [d for d in docs if d.get("kind") == "FunctionDecl" and d.get("name") == op and
             (ENGINE + " &") in qtype(d) and (("const " + ENGINE) in qtype(d)) == const and
             any(k.get("kind") == "CompoundStmt" for k in kids(d))]
    if len(cands) != 1:
        raise Refuse("expected exactly one definition of %s for %s, found %d" % (op, ENGINE, len(cands)))
    fn = cands[0]
    params = [k for k in kids(fn) if k.get("kind") == "ParmVarDecl"]
    if len(params) != 2:
        raise Refuse("%s: two parameters expected" % op)
    body = [k for k in kids(fn) if k.get("kind") == "CompoundStmt"][0]
    st = kids(body)
    if len(st) != 1 or st[0].get("kind") != "ReturnStmt" or len(kids(st[0])) != 1:
        raise Refuse("%s: body is not a single `return <chain>;` (%s)" % (op, [s.get("kind") for s in st]))
    return params[0].get("name"), params[1].get("name"), kids(st[0])[0]


def state_index(n, eng):
    """e.state[<integer literal>] -> (index, declared size)"""
    n = peel(n)
    if n.get("kind") != "CXXOperatorCallExpr":
        return None
    ks = kids(n)
    if len(ks) != 3:
        return None
    callee = peel(ks[0])
    if callee.get("kind") != "DeclRefExpr" or callee.get("referencedDecl", {}).get("name") != "operator[]":
        return None
    arr = peel(ks[1])
    if arr.get("kind") != "MemberExpr" or arr.get("name") != "state":
        raise Refuse("subscript of something that is not `.state`: %s" % arr.get("name"))
    base = peel(kids(arr)[0])
    if base.get("kind") != "DeclRefExpr" or base.get("referencedDecl", {}).get("name") != eng:
        raise Refuse("`.state` of something that is not the engine parameter")
    m = re.search(r"std::array<unsigned long, (\d+)>", qtype(arr))
    if not m:
        raise Refuse("state is not std::array<unsigned long, N>: " + qtype(arr))
    idx = ks[2]
    while idx.get("kind") == "ImplicitCastExpr" and idx.get("castKind") == "IntegralCast":
        idx = kids(idx)[0]
    idx = peel(idx)
    if idx.get("kind") != "IntegerLiteral":
        raise Refuse("state index is not an integer literal (%s)" % idx.get("kind"))
    return int(idx.get("value")), int(m.group(1))


def chain(n, op, stream, eng, out):
    """left-nested `((s op a) op b) op c` -> appends a, b, c to out (evaluation order of the I/O)"""
    n = peel(n)
    if n.get("kind") == "DeclRefExpr" and n.get("referencedDecl", {}).get("name") == stream:
        return
    if n.get("kind") != "CXXOperatorCallExpr":
        raise Refuse("unexpected node in the %s chain: %s" % (op, n.get("kind")))
    ks = kids(n)
    callee = peel(ks[0])
    name = callee.get("referencedDecl", {}).get("name") if callee.get("kind") == "DeclRefExpr" else None
    if name != op or len(ks) != 3:
        raise Refuse("unexpected call in the %s chain: %s" % (op, name))
    chain(ks[1], op, stream, eng, out)
    item = ks[2]
    si = state_index(item, eng)
    if si is not None:
        # the std overload must be the one for `unsigned long` (decimal text, no manipulators in the chain)
        if "unsigned long" not in qtype(callee):
            raise Refuse("state element is not transferred as unsigned long: " + qtype(callee))
        out.append(("st",) + si)
        return
    it = peel(item)
    while it.get("kind") == "ImplicitCastExpr":
        it = peel(kids(it)[0])
    if op == "operator<<" and it.get("kind") == "CharacterLiteral":
        out.append(("ch", int(it.get("value"))))
        return
    raise Refuse("unsupported operand in the %s chain: %s" % (op, it.get("kind")))


def translate():
    wdocs = ast_dump("rng_tu.cc", "vigna::operator<<")
    rdocs = ast_dump("rng_tu.cc", "vigna::operator>>")
    s, e, expr = body_of(wdocs, "operator<<", True)
    w = []
    chain(expr, "operator<<", s, e, w)
    s, e, expr = body_of(rdocs, "operator>>", False)
    r = []
    chain(expr, "operator>>", s, e, r)
    if any(x[0] != "st" for x in r):
        raise Refuse("operator>> reads something that is not a state element")
    sizes = {x[2] for x in w + r if x[0] == "st"}
    if len(sizes) != 1:
        raise Refuse("inconsistent state sizes %s" % sizes)
    return w, [x[1] for x in r], sizes.pop()


def lean_char(c):
    return "(Char.ofNat %d)" % c


def emit(path):
    w, r, size = translate()
    items = ", ".join(".st %d" % x[1] if x[0] == "st" else ".ch " + lean_char(x[1]) for x in w)
    txt = "\n".join([
        "-- GENERATED by tools/translate_rng.py from /repo/src/utility/xoshiro256ss.cc",
        "-- (regenerated on every check run; do not edit)",
        "import Vita.C07.Syntax", "namespace Vita.C07.Gen", "open Vita.C07", "",
        "/-- what `operator<<(ostream&, const xoshiro256ss&)` writes, in order -/",
        "def writeItems : List Item := [%s]" % items, "",
        "/-- the indices `i` of the `e.state[i]` that `operator>>(istream&, xoshiro256ss&)` reads into, in order -/",
        "def readIdx : List Nat := [%s]" % ", ".join(str(i) for i in r), "",
        "/-- `N` of `std::array<std::uint64_t, N> state` -/",
        "def stateSize : Nat := %d" % size, "",
        "end Vita.C07.Gen", ""])
    old = open(path).read() if os.path.exists(path) else None
    if old != txt:
        os.makedirs(os.path.dirname(path), exist_ok=True)
        with open(path, "w") as f:
            f.write(txt)
    info = {"write": [("state[%d]" % x[1]) if x[0] == "st" else repr(chr(x[1])) for x in w],
            "read": r, "state_size": size}
    return info, old is not None and old != txt


if __name__ == "__main__":
    here = os.path.dirname(os.path.dirname(os.path.abspath(__file__)))
    try:
        info, changed = emit(os.path.join(here, "lean", "Vita", "C07", "Gen.lean"))
        print("translated:", info, "(changed)" if changed else "")
    except Refuse as e:
        print("REFUSE:", e)
        sys.exit(2)
