#!/usr/bin/env python3
"""Translator for C07: the stream operators of vigna::xoshiro256ss.

From the clang AST of /repo's current src/utility/xoshiro256ss.cc it extracts, *syntax only*,

  operator<<(ostream&, const xoshiro256ss&)  ->  the list of things written, in order:
                                                  `.st i` (e.state[i], decimal) | `.ch c` (a character)
  operator>>(istream&, xoshiro256ss&)        ->  the list of indices i of the e.state[i] read into
  the declared size of `state`

and writes lean/Vita/C07/Gen.lean.  Any other statement or expression shape is refused.
"""
import os
import re
import sys

sys.path.insert(0, os.path.dirname(os.path.abspath(__file__)))
from cxx2lean import Refuse, ast_dump, kids, peel, qtype  # noqa: E402

ENGINE = "vigna::xoshiro256ss"


def body_of(docs, op, const):
    cands = [d for d in docs if d.get("kind") == "FunctionDecl" and d.get("name") == op and
             (ENGINE + " &") in qtype(d) and (("const " + ENGINE) in qtype(d)) == const and
             any(k.get("kind") == "CompoundStmt" for k in kids(d))]
    if len(cands) != 1:
        raise Refuse("expected exactly one definition of %s for %s, found %d" % (op, ENGINE, len(cands)))
    fn = cands[0]
    params = [k for k in kids(fn) if k.get("kind") == "ParmVarDecl"]
    if len(params) != 2:
        raise Refuse("%s: two parameters expected" % op)
    body = [k for k in kids(fn) if k.get("kind") == "CompoundStmt"][0]
    st = kids(body)
    if len(st) != 1 or st[0].get("kind") != "ReturnStmt" or len(kids(st[0])) != 1:
        raise Refuse("%s: body is not a single `return <chain>;` (%s)" % (op, [s.get("kind") for s in st]))
    return params[0].get("name"), params[1].get("name"), kids(st[0])[0]


def state_index(n, eng):
    """e.state[<integer literal>] -> (index, declared size)"""
    n = peel(n)
    if n.get("kind") != "CXXOperatorCallExpr":
        return None
    ks = kids(n)
    if len(ks) != 3:
        return None
    callee = peel(ks[0])
    if callee.get("kind") != "DeclRefExpr" or callee.get("referencedDecl", {}).get("name") != "operator[]":
        return None
    arr = peel(ks[1])
    if arr.get("kind") != "MemberExpr" or arr.get("name") != "state":
        raise Refuse("subscript of something that is not `.state`: %s" % arr.get("name"))
    base = peel(kids(arr)[0])
    if base.get("kind") != "DeclRefExpr" or base.get("referencedDecl", {}).get("name") != eng:
        raise Refuse("`.state` of something that is not the engine parameter")
    m = re.search(r"std::array<unsigned long, (\d+)>", qtype(arr))
    if not m:
        raise Refuse("state is not std::array<unsigned long, N>: " + qtype(arr))
    idx = ks[2]
    while idx.get("kind") == "ImplicitCastExpr" and idx.get("castKind") == "IntegralCast":
        idx = kids(idx)[0]
    idx = peel(idx)
    if idx.get("kind") != "IntegerLiteral":
        raise Refuse("state index is not an integer literal (%s)" % idx.get("kind"))
    return int(idx.get("value")), int(m.group(1))


def chain(n, op, stream, eng, out):
    """left-nested `((s op a) op b) op c` -> appends a, b, c to out (evaluation order of the I/O)"""
    n = peel(n)
    if n.get("kind") == "DeclRefExpr" and n.get("referencedDecl", {}).get("name") == stream:
        return
    if n.get("kind") != "CXXOperatorCallExpr":
        raise Refuse("unexpected node in the %s chain: %s" % (op, n.get("kind")))
    ks = kids(n)
    callee = peel(ks[0])
    name = callee.get("referencedDecl", {}).get("name") if callee.get("kind") == "DeclRefExpr" else None
    if name != op or len(ks) != 3:
        raise Refuse("unexpected call in the %s chain: %s" % (op, name))
    chain(ks[1], op, stream, eng, out)
    item = ks[2]
    si = state_index(item, eng)
    if si is not None:
        # the std overload must be the one for `unsigned long` (decimal text, no manipulators in the chain)
        if "unsigned long" not in qtype(callee):
            raise Refuse("state element is not transferred as unsigned long: " + qtype(callee))
        out.append(("st",) + si)
        return
    it = peel(item)
    while it.get("kind") == "ImplicitCastExpr":
        it = peel(kids(it)[0])
    if op == "operator<<" and it.get("kind") == "CharacterLiteral":
        out.append(("ch", int(it.get("value"))))
        return
    raise Refuse("unsupported operand in the %s chain: %s" % (op, it.get("kind")))


def translate():
    wdocs = ast_dump("rng_tu.cc", "vigna::operator<<")
    rdocs = ast_dump("rng_tu.cc", "vigna::operator>>")
    s, e, expr = body_of(wdocs, "operator<<", True)
    w = []
    chain(expr, "operator<<", s, e, w)
    s, e, expr = body_of(rdocs, "operator>>", False)
    r = []
    chain(expr, "operator>>", s, e, r)
    if any(x[0] != "st" for x in r):
        raise Refuse("operator>> reads something that is not a state element")
    sizes = {x[2] for x in w + r if x[0] == "st"}
    if len(sizes) != 1:
        raise Refuse("inconsistent state sizes %s" % sizes)
    return w, [x[1] for x in r], sizes.pop()


# ---------------------------------------------------------------------------------------------------
# the unsigned 64-bit code: rotl, splitmix64, seed_with_sm64, xoshiro256ss::seed / operator() / operator==
#   -> terms of Vita.C07.U (lean/Vita/C07/U64E.lean), written to lean/Vita/C07/GenCode.lean
# ---------------------------------------------------------------------------------------------------
OPS = {"+": "add", "-": "sub", "*": "mul", "^": "xor", "|": "or", "&": "and", "<<": "shl", ">>": "shr"}
U64 = ("unsigned long", "const unsigned long")
SPLITMIX = "vigna::(anonymous namespace)::splitmix64"


def only(docs, pred, what):
    c = [d for d in docs if pred(d)]
    if len(c) != 1:
        raise Refuse("expected exactly one %s, found %d" % (what, len(c)))
    return c[0]


def has_body(d):
    return any(k.get("kind") == "CompoundStmt" for k in kids(d))


def body_stmts(fn):
    return kids([k for k in kids(fn) if k.get("kind") == "CompoundStmt"][0])


def strip_casts(n):
    """value-preserving wrappers: parentheses, lvalue-to-rvalue, no-op casts"""
    while True:
        k = n.get("kind")
        if k in ("ParenExpr", "ExprWithCleanups", "ConstantExpr") and len(kids(n)) == 1:
            n = kids(n)[0]
        elif k == "ImplicitCastExpr" and n.get("castKind") in ("LValueToRValue", "NoOp") and len(kids(n)) == 1:
            n = kids(n)[0]
        else:
            return n


class Code:
    """translator of one function body; `this` is `engine` (has `state`) or `splitmix` (has `x`) or None"""

    def __init__(self, this, params, def_seed, size):
        self.this, self.params, self.locals, self.def_seed, self.size = this, list(params), [], def_seed, size

    def is_this(self, n):
        return strip_casts(n).get("kind") == "CXXThisExpr"

    def state_index(self, n):
        """this->state[<literal>] -> index"""
        n = strip_casts(n)
        if n.get("kind") != "CXXOperatorCallExpr" or len(kids(n)) != 3:
            return None
        callee = strip_casts(kids(n)[0])
        while callee.get("kind") == "ImplicitCastExpr":
            callee = kids(callee)[0]
        if callee.get("referencedDecl", {}).get("name") != "operator[]":
            return None
        arr = strip_casts(kids(n)[1])
        if arr.get("kind") != "MemberExpr" or arr.get("name") != "state" or not self.is_this(kids(arr)[0]) \
                or self.this != "engine":
            raise Refuse("subscript of something that is not this->state")
        m = re.search(r"std::array<unsigned long, (\d+)>", qtype(arr))
        if not m or int(m.group(1)) != self.size:
            raise Refuse("state is not std::array<unsigned long, %d>: %s" % (self.size, qtype(arr)))
        idx = kids(n)[2]
        while idx.get("kind") == "ImplicitCastExpr" and idx.get("castKind") == "IntegralCast":
            idx = kids(idx)[0]
        idx = strip_casts(idx)
        if idx.get("kind") != "IntegerLiteral":
            raise Refuse("state index is not an integer literal (%s)" % idx.get("kind"))
        return int(idx.get("value"))

    def is_x(self, n):
        n = strip_casts(n)
        return n.get("kind") == "MemberExpr" and n.get("name") == "x" and self.is_this(kids(n)[0]) \
            and self.this == "splitmix"

    def expr(self, n):
        n = strip_casts(n)
        k = n.get("kind")
        if k == "ImplicitCastExpr" and n.get("castKind") == "IntegralCast":
            inner = strip_casts(kids(n)[0])
            if inner.get("kind") == "IntegerLiteral" and int(inner.get("value")) >= 0:
                return ("lit", int(inner.get("value")))
            raise Refuse("integral conversion of a non-literal (%s -> %s)" % (qtype(inner), qtype(n)))
        if k == "IntegerLiteral":
            v = int(n.get("value"))
            if v < 0:
                raise Refuse("negative literal")
            return ("lit", v)
        i = self.state_index(n)
        if i is not None:
            return ("st", i)
        if self.is_x(n):
            return ("x",)
        if k == "DeclRefExpr":
            rd = n.get("referencedDecl", {})
            name = rd.get("name")
            if rd.get("kind") == "ParmVarDecl" and name in self.params:
                return ("arg", self.params.index(name))
            if rd.get("kind") == "VarDecl" and name in self.locals:
                return ("loc", self.locals.index(name))
            if rd.get("kind") == "VarDecl" and name == "def_seed" and self.def_seed is not None:
                return ("lit", self.def_seed)
            raise Refuse("reference to %s %r" % (rd.get("kind"), name))
        if k == "BinaryOperator" and n.get("opcode") in OPS:
            if qtype(n) not in U64 + ("int",):
                raise Refuse("arithmetic at type %s" % qtype(n))
            a, b = kids(n)
            return ("bin", OPS[n["opcode"]], self.expr(a), self.expr(b))
        if k == "CallExpr":
            ks = kids(n)
            callee = strip_casts(ks[0])
            while callee.get("kind") == "ImplicitCastExpr":
                callee = kids(callee)[0]
            if callee.get("referencedDecl", {}).get("name") == "rotl" and len(ks) == 3 and \
                    "std::uint64_t (std::uint64_t, int)" in qtype(callee):
                return ("rotl", self.expr(ks[1]), self.expr(ks[2]))
            raise Refuse("call of %r" % callee.get("referencedDecl", {}).get("name"))
        raise Refuse("expression node %s" % k)

    def assign_target(self, n):
        i = self.state_index(n)
        if i is not None:
            return ("st", i)
        if self.is_x(n):
            return ("x",)
        n = strip_casts(n)
        if n.get("kind") == "DeclRefExpr":
            rd = n.get("referencedDecl", {})
            if rd.get("kind") == "ParmVarDecl" and rd.get("name") in self.params:
                return ("arg", self.params.index(rd["name"]))
            if rd.get("kind") == "VarDecl" and rd.get("name") in self.locals:
                return ("loc", self.locals.index(rd["name"]))
        raise Refuse("assignment to %s" % n.get("kind"))

    def compound(self, n):
        """`lhs op= rhs` -> statement"""
        op = n.get("opcode", "")[:-1]
        if op not in OPS:
            raise Refuse("compound assignment %s" % n.get("opcode"))
        t = self.assign_target(kids(n)[0])
        e = self.expr(kids(n)[1])
        if t[0] == "st":
            return ("updSt", t[1], OPS[op], e)
        if t[0] == "x":
            return ("updX", OPS[op], e)
        raise Refuse("compound assignment to a %s" % t[0])

    def stmt(self, s):
        """-> list of statements"""
        k = s.get("kind")
        if k == "CompoundStmt":
            return [x for c in kids(s) for x in self.stmt(c)]
        if k == "NullStmt":
            return []
        if k == "DeclStmt":
            out = []
            for d in kids(s):
                if d.get("kind") != "VarDecl" or len(kids(d)) != 1:
                    raise Refuse("declaration %s" % d.get("kind"))
                init = kids(d)[0]
                if qtype(d) == SPLITMIX:
                    if init.get("kind") != "CXXConstructExpr" or len(kids(init)) != 1 or d.get("name") != "sm":
                        raise Refuse("construction of splitmix64 is not `splitmix64 sm(<expr>)`")
                    out.append(("newSm", self.expr(kids(init)[0])))
                    continue
                if qtype(d) not in U64:
                    raise Refuse("local %s of type %s" % (d.get("name"), qtype(d)))
                core = strip_casts(init)
                if core.get("kind") == "CompoundAssignOperator":     # auto z(x += K): x updated, then read
                    st = self.compound(core)
                    out.append(st)
                    out.append(("decl", ("x",) if st[0] == "updX" else ("st", st[1])))
                else:
                    out.append(("decl", self.expr(init)))
                self.locals.append(d.get("name"))
            return out
        if k == "CompoundAssignOperator":
            return [self.compound(s)]
        if k == "BinaryOperator" and s.get("opcode") == "=":
            t = self.assign_target(kids(s)[0])
            e = self.expr(kids(s)[1])
            return [{"st": ("setSt", t[1], e) if t[0] == "st" else None, "loc": ("setLoc", t[-1], e),
                     "arg": ("setArg", t[-1], e)}.get(t[0]) or _refuse("assignment to x")]
        if k == "IfStmt":
            ks = kids(s)
            if s.get("hasElse") or s.get("hasInit") or s.get("hasVar") or len(ks) != 2:
                raise Refuse("if with else / initialiser")
            c = strip_casts(ks[0])
            if c.get("kind") != "BinaryOperator" or c.get("opcode") != "==":
                raise Refuse("condition is not `a == b`")
            then = self.stmt(ks[1])
            if len(then) != 1:
                raise Refuse("the controlled statement is not a single statement")
            return [("ifEq", self.expr(kids(c)[0]), self.expr(kids(c)[1]), then[0])]
        if k == "ReturnStmt":
            return [("ret", self.expr(kids(s)[0]))]
        if k == "CallExpr":
            ks = kids(s)
            callee = strip_casts(ks[0])
            while callee.get("kind") == "ImplicitCastExpr":
                callee = kids(callee)[0]
            name = callee.get("referencedDecl", {}).get("name")
            if name == "seed_with_sm64" and len(ks) == 3:
                arr = strip_casts(ks[2])
                if arr.get("kind") != "MemberExpr" or arr.get("name") != "state" or not self.is_this(kids(arr)[0]):
                    raise Refuse("seed_with_sm64 is not applied to this->state")
                if "std::array<unsigned long, %d> &" % self.size not in qtype(callee):
                    raise Refuse("seed_with_sm64 instantiated for %s" % qtype(callee))
                return [("seedWith", self.expr(ks[1]))]
            if name == "generate" and len(ks) == 4:
                return [self.generate(ks, qtype(callee))]
            raise Refuse("call of %r as a statement" % name)
        raise Refuse("statement %s" % k)

    def generate(self, ks, callee_type):
        """std::generate(state.begin(), state.end(), [&sm]{ return sm.next(); })"""
        if not callee_type.startswith("void (unsigned long *, unsigned long *, (lambda"):
            raise Refuse("generate is not std::generate over unsigned long *: " + callee_type[:80])
        for a, want in ((ks[1], "begin"), (ks[2], "end")):
            a = strip_casts(a)
            if a.get("kind") != "CXXMemberCallExpr":
                raise Refuse("generate range is not state.begin(), state.end()")
            me = strip_casts(kids(a)[0])
            base = strip_casts(kids(me)[0])
            if me.get("name") != want or base.get("referencedDecl", {}).get("name") != "state" or \
                    "std::array<unsigned long, %d>" % self.size not in qtype(base):
                raise Refuse("generate range is not state.begin(), state.end()")
        lam = strip_casts(ks[3])
        while lam.get("kind") in ("MaterializeTemporaryExpr", "CXXConstructExpr", "ImplicitCastExpr",
                                  "CXXBindTemporaryExpr") and len(kids(lam)) == 1:
            lam = kids(lam)[0]
        if lam.get("kind") != "LambdaExpr":
            raise Refuse("third argument of generate is not a lambda (%s)" % lam.get("kind"))
        rec = [c for c in kids(lam) if c.get("kind") == "CXXRecordDecl"][0]
        fields = [c for c in kids(rec) if c.get("kind") == "FieldDecl"]
        if len(fields) != 1 or qtype(fields[0]) != SPLITMIX + " &":
            raise Refuse("the lambda does not capture exactly `sm` by reference")
        body = [c for c in kids(lam) if c.get("kind") == "CompoundStmt"][0]
        st = kids(body)
        ok = len(st) == 1 and st[0].get("kind") == "ReturnStmt"
        if ok:
            call = strip_casts(kids(st[0])[0])
            ok = call.get("kind") == "CXXMemberCallExpr" and len(kids(call)) == 1
            if ok:
                me = strip_casts(kids(call)[0])
                obj = strip_casts(kids(me)[0])
                ok = me.get("name") == "next" and obj.get("referencedDecl", {}).get("name") == "sm"
        if not ok:
            raise Refuse("the lambda is not `[&sm]{ return sm.next(); }`")
        return ("generate", self.size)


def _refuse(msg):
    raise Refuse(msg)


def translate_code(size):
    rot = only(ast_dump("rng_tu.cc", "vigna::rotl"), lambda d: d.get("kind") == "FunctionDecl" and has_body(d), "rotl")
    ps = [k.get("name") for k in kids(rot) if k.get("kind") == "ParmVarDecl"]
    if "std::uint64_t (std::uint64_t, int)" not in qtype(rot) or len(ps) != 2:
        raise Refuse("rotl is not std::uint64_t (std::uint64_t, int)")
    st = body_stmts(rot)
    if len(st) != 1 or st[0].get("kind") != "ReturnStmt":
        raise Refuse("rotl is not a single return")
    rotl_e = Code(None, ps, None, size).expr(kids(st[0])[0])

    docs = ast_dump("rng_tu.cc", "splitmix64::splitmix64")
    ctor = only(docs, lambda d: d.get("kind") == "CXXConstructorDecl" and has_body(d), "splitmix64 constructor")
    ps = [k.get("name") for k in kids(ctor) if k.get("kind") == "ParmVarDecl"]
    inits = [k for k in kids(ctor) if k.get("kind") == "CXXCtorInitializer"]
    if len(inits) != 1 or inits[0].get("anyInit", {}).get("name") != "x" or body_stmts(ctor):
        raise Refuse("splitmix64 constructor is not `: x(<expr>) {}`")
    sm_ctor = Code(None, ps, None, size).expr(kids(inits[0])[0])

    nxt = only(ast_dump("rng_tu.cc", "splitmix64::next"),
               lambda d: d.get("kind") == "CXXMethodDecl" and has_body(d), "splitmix64::next")
    sm_next = Code("splitmix", [], None, size).stmt({"kind": "CompoundStmt", "inner": body_stmts(nxt)})

    dd = [d for d in ast_dump("rng_tu.cc", "vigna::xoshiro256ss::def_seed") if d.get("kind") == "VarDecl" and kids(d)]
    if len(dd) != 1 or strip_casts(kids(dd[0])[0]).get("kind") != "IntegerLiteral":
        raise Refuse("def_seed is not initialised with an integer literal")
    def_seed = int(strip_casts(kids(dd[0])[0]).get("value"))

    tmpl = only(ast_dump("rng_tu.cc", "seed_with_sm64"), lambda d: d.get("kind") == "FunctionTemplateDecl",
                "seed_with_sm64")
    inst = only(kids(tmpl), lambda d: d.get("kind") == "FunctionDecl" and has_body(d) and
                ("std::array<unsigned long, %d> &" % size) in qtype(d), "instantiation of seed_with_sm64 for N=%d" % size)
    ps = [k.get("name") for k in kids(inst) if k.get("kind") == "ParmVarDecl"]
    seed_with = Code(None, ps[:1], None, size).stmt({"kind": "CompoundStmt", "inner": body_stmts(inst)})

    sd = only(ast_dump("rng_tu.cc", "vigna::xoshiro256ss::seed"),
              lambda d: d.get("kind") == "CXXMethodDecl" and has_body(d) and
              len([k for k in kids(d) if k.get("kind") == "ParmVarDecl"]) == 1, "xoshiro256ss::seed(result_type)")
    ps = [k.get("name") for k in kids(sd) if k.get("kind") == "ParmVarDecl"]
    seed = Code("engine", ps, def_seed, size).stmt({"kind": "CompoundStmt", "inner": body_stmts(sd)})

    op = only(ast_dump("rng_tu.cc", "vigna::xoshiro256ss::operator()"),
              lambda d: d.get("kind") == "CXXMethodDecl" and has_body(d), "xoshiro256ss::operator()")
    if [k for k in kids(op) if k.get("kind") == "ParmVarDecl"]:
        raise Refuse("operator() takes parameters")
    nxt_e = Code("engine", [], def_seed, size).stmt({"kind": "CompoundStmt", "inner": body_stmts(op)})

    eq = only(ast_dump("rng_tu.cc", "vigna::xoshiro256ss::operator=="),
              lambda d: d.get("kind") == "CXXMethodDecl" and has_body(d), "xoshiro256ss::operator==")
    rhs = [k.get("name") for k in kids(eq) if k.get("kind") == "ParmVarDecl"]
    st = body_stmts(eq)
    if len(st) != 1 or st[0].get("kind") != "ReturnStmt":
        raise Refuse("operator== is not a single return")
    call = strip_casts(kids(st[0])[0])
    ok = call.get("kind") == "CXXOperatorCallExpr" and len(kids(call)) == 3
    if ok:
        callee = kids(call)[0]
        while callee.get("kind") == "ImplicitCastExpr":
            callee = kids(callee)[0]
        a, b = strip_casts(kids(call)[1]), strip_casts(kids(call)[2])
        ok = callee.get("referencedDecl", {}).get("name") == "operator==" and \
            re.search(r"array<unsigned long, %dUL?> &, const (std::)?array<unsigned long, %dUL?> &" % (size, size),
                      qtype(callee)) is not None and \
            a.get("kind") == "MemberExpr" and a.get("name") == "state" and \
            strip_casts(kids(a)[0]).get("kind") == "CXXThisExpr" and \
            b.get("kind") == "MemberExpr" and b.get("name") == "state" and \
            strip_casts(kids(b)[0]).get("referencedDecl", {}).get("name") == rhs[0]
    if not ok:
        raise Refuse("operator== is not `return state == rhs.state;` on std::array<std::uint64_t, %d>" % size)
    eq_pairs = [(i, i) for i in range(size)]        # std::array's operator== = std::equal over all elements
    return {"rotlE": rotl_e, "smCtor": sm_ctor, "smNext": sm_next, "seedWith": seed_with, "seed": seed,
            "next": nxt_e, "eqPairs": eq_pairs, "size": size, "def_seed": def_seed}


def lean_e(t):
    h = t[0]
    if h == "lit":
        return "(.lit %d)" % t[1]
    if h in ("st", "loc", "arg"):
        return "(.%s %d)" % (h, t[1])
    if h == "x":
        return ".x"
    if h == "bin":
        return "(.bin .%s %s %s)" % (t[1], lean_e(t[2]), lean_e(t[3]))
    if h == "rotl":
        return "(.rotl %s %s)" % (lean_e(t[1]), lean_e(t[2]))
    raise Refuse("render " + h)


def lean_s(t):
    h = t[0]
    if h in ("decl", "newSm", "seedWith", "ret"):
        return "(.%s %s)" % (h, lean_e(t[1]))
    if h in ("setLoc", "setArg", "setSt"):
        return "(.%s %d %s)" % (h, t[1], lean_e(t[2]))
    if h == "updSt":
        return "(.updSt %d .%s %s)" % (t[1], t[2], lean_e(t[3]))
    if h == "updX":
        return "(.updX .%s %s)" % (t[1], lean_e(t[2]))
    if h == "ifEq":
        return "(.ifEq %s %s %s)" % (lean_e(t[1]), lean_e(t[2]), lean_s(t[3]))
    if h == "generate":
        return "(.generate %d)" % t[1]
    raise Refuse("render " + h)


def emit_code(path, size):
    c = translate_code(size)

    def block(ss):
        return "[" + ",\n     ".join(lean_s(x) for x in ss) + "]"
    txt = "\n".join([
        "-- GENERATED by tools/translate_rng.py from /repo/src/utility/xoshiro256ss.{h,cc}",
        "-- (regenerated on every check run; do not edit)",
        "import Vita.C07.U64E", "namespace Vita.C07.GenCode", "open Vita.C07.U", "",
        "/-- `vigna::rotl(x, k)`: x = arg 0, k = arg 1 -/",
        "def rotlE : E := %s" % lean_e(c["rotlE"]), "",
        "/-- `splitmix64::splitmix64(seed) : x(…)` -/",
        "def smCtor : E := %s" % lean_e(c["smCtor"]), "",
        "/-- `splitmix64::next()` -/",
        "def smNext : List S :=\n    %s" % block(c["smNext"]), "",
        "/-- `seed_with_sm64(seed, state)` instantiated for `std::array<std::uint64_t, %d>` -/" % size,
        "def seedWith : List S :=\n    %s" % block(c["seedWith"]), "",
        "/-- `xoshiro256ss::seed(result_type s)` (`def_seed` = %d) -/" % c["def_seed"],
        "def seed : List S :=\n    %s" % block(c["seed"]), "",
        "/-- `xoshiro256ss::operator()()` -/",
        "def next : List S :=\n    %s" % block(c["next"]), "",
        "/-- `xoshiro256ss::operator==`: the pairs (i, j) of `state[i] == rhs.state[j]` compared -/",
        "def eqPairs : List (Nat × Nat) := [%s]" % ", ".join("(%d, %d)" % p for p in c["eqPairs"]), "",
        "def prog : Prog :=",
        "  { rotlE := rotlE, smCtor := smCtor, smNext := smNext, seedWith := seedWith, seed := seed, next := next,",
        "    eqPairs := eqPairs, size := %d }" % size, "",
        "end Vita.C07.GenCode", ""])
    old = open(path).read() if os.path.exists(path) else None
    if old != txt:
        with open(path, "w") as f:
            f.write(txt)
    info = {"functions": ["rotl", "splitmix64::splitmix64", "splitmix64::next", "seed_with_sm64<array<u64,%d>>" % size,
                          "xoshiro256ss::seed", "xoshiro256ss::operator()", "xoshiro256ss::operator=="],
            "statements": {k: len(c[k]) for k in ("smNext", "seedWith", "seed", "next")}, "def_seed": c["def_seed"]}
    return info, old is not None and old != txt


def lean_char(c):
    return "(Char.ofNat %d)" % c


def emit(path):
    w, r, size = translate()
    items = ", ".join(".st %d" % x[1] if x[0] == "st" else ".ch " + lean_char(x[1]) for x in w)
    txt = "\n".join([
        "-- GENERATED by tools/translate_rng.py from /repo/src/utility/xoshiro256ss.cc",
        "-- (regenerated on every check run; do not edit)",
        "import Vita.C07.Syntax", "namespace Vita.C07.Gen", "open Vita.C07", "",
        "/-- what `operator<<(ostream&, const xoshiro256ss&)` writes, in order -/",
        "def writeItems : List Item := [%s]" % items, "",
        "/-- the indices `i` of the `e.state[i]` that `operator>>(istream&, xoshiro256ss&)` reads into, in order -/",
        "def readIdx : List Nat := [%s]" % ", ".join(str(i) for i in r), "",
        "/-- `N` of `std::array<std::uint64_t, N> state` -/",
        "def stateSize : Nat := %d" % size, "",
        "end Vita.C07.Gen", ""])
    old = open(path).read() if os.path.exists(path) else None
    if old != txt:
        os.makedirs(os.path.dirname(path), exist_ok=True)
        with open(path, "w") as f:
            f.write(txt)
    info = {"write": [("state[%d]" % x[1]) if x[0] == "st" else repr(chr(x[1])) for x in w],
            "read": r, "state_size": size}
    return info, old is not None and old != txt


if __name__ == "__main__":
    here = os.path.dirname(os.path.dirname(os.path.abspath(__file__)))
    try:
        info, changed = emit(os.path.join(here, "lean", "Vita", "C07", "Gen.lean"))
        print("translated:", info, "(changed)" if changed else "")
        info2, changed2 = emit_code(os.path.join(here, "lean", "Vita", "C07", "GenCode.lean"), info["state_size"])
        print("translated:", info2, "(changed)" if changed2 else "")
    except Refuse as e:
        print("REFUSE:", e)
        sys.exit(2)
