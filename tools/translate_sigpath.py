#!/usr/bin/env python3
"""C03 – shared mutable state on the signature path (syntax only, from the clang AST of /repo's
*current* working tree) -> lean/Vita/C03/GenSigPath.lean.

Roots: `signature()` of i_mep, i_ga, i_de, team<i_mep>.  The call graph is closed under every
callee whose body is in namespace vita (member functions, free functions, template
specialisations, constructors, lambdas inside the bodies; a virtual call reaches every override in
the translation unit).  For every function of the closure the translator lists

  globals     every variable with static storage duration the body mentions (namespace scope
              variables, static data members, function-local `static` / `thread_local`), with its
              storage kind, whether it is `thread_local` and whether its type is const
  externals   every callee whose body is NOT in namespace vita (std:: / libc), by name
  thisWrites  members of `*this` written by a `const` member function (`mutable` members)
  foreign     non-const member functions called on an object that is neither `*this`, a member of
              `*this`, a local variable nor a parameter

Signatures are computed by evaluator / evolution code that may run on several threads (the fitness
cache is explicitly thread-shared): two threads computing the signature of DIFFERENT individuals
must not communicate.  The Lean side (`Vita.C03.Props.sigpath_*`) requires: every global is
`thread_local` or const (or explicitly justified), every external is on the allow-list of
re-entrant library functions, the only member written is the cache `signature_`, no foreign
non-const call.  `Refuse` on anything that cannot be resolved.
"""
import json
import os
import subprocess
import sys

sys.path.insert(0, os.path.dirname(os.path.abspath(__file__)))
from cxx2lean import Refuse, HERE, REPO  # noqa: E402

FUNC_KINDS = {"FunctionDecl", "CXXMethodDecl", "CXXConstructorDecl", "CXXDestructorDecl", "CXXConversionDecl"}
RECORD_KINDS = {"CXXRecordDecl", "ClassTemplateSpecializationDecl", "ClassTemplatePartialSpecializationDecl"}
ROOT_CLASSES = ("i_mep", "i_ga", "i_de", "team")
_CACHE = {}


def load_ast(tu="sigpath_tu.cc"):
    """all declarations of namespace vita (one clang run, ~3 s, ~70 MB of JSON)"""
    if tu in _CACHE:
        return _CACHE[tu]
    cmd = ["clang++-14", "-std=c++17", "-I" + os.path.join(REPO, "src"),
           "-isystem", os.path.join(REPO, "src", "third_party"), "-w", "-fsyntax-only",
           "-DVITA_VERIF", "-DNDEBUG", "-Xclang", "-ast-dump=json", "-Xclang", "-ast-dump-filter=vita::",
           os.path.join(HERE, "tu", tu)]
    p = subprocess.run(cmd, stdout=subprocess.PIPE, stderr=subprocess.PIPE)
    if p.returncode != 0:
        raise Refuse("clang failed on %s: %s" % (tu, p.stderr.decode("utf-8", "replace")[-2000:]))
    txt = p.stdout.decode("utf-8", "replace")
    dec = json.JSONDecoder()
    i, docs = 0, []
    while i < len(txt):
        while i < len(txt) and txt[i].isspace():
            i += 1
        if i >= len(txt):
            break
        o, j = dec.raw_decode(txt, i)
        docs.append(o)
        i = j
    _CACHE[tu] = docs
    return docs


def inner(n):
    return [c for c in n.get("inner", []) if isinstance(c, dict)]


def has_body(d):
    return any(c.get("kind") == "CompoundStmt" for c in inner(d))


def qual(n):
    return n.get("type", {}).get("qualType", "")


class Ix:
    """index of every declaration in the dump"""

    def __init__(self, docs):
        self.funcs = {}      # id -> node
        self.info = {}       # id -> dict(name=qualified name, dependent, record)
        self.vars = {}       # id -> dict(node, fn (enclosing function id or None), record, name)
        self.records = {}    # id -> (name, dependent)
        self.def_of = {}     # declaration id -> definition id
        self.by_name = {}    # simple name -> [ids]
        self.ctors = {}      # record simple name -> [ids]
        self.local_ids = set()   # ParmVarDecl / local non-static VarDecl / BindingDecl ids
        seen = set()
        for d in docs:
            if d.get("id") in seen:
                continue
            seen.add(d.get("id"))
            self.walk(d, [], None, False, None)
        for i, n in self.funcs.items():
            p = n.get("previousDecl")
            if p and has_body(n):
                self.def_of[p] = i
                # chains of redeclarations
                q = self.funcs.get(p, {}).get("previousDecl")
                while q:
                    self.def_of[q] = i
                    q = self.funcs.get(q, {}).get("previousDecl")

    def walk(self, n, scope, fn, dependent, record):
        k = n.get("kind")
        if k == "NamespaceDecl":
            sc = scope + [n.get("name", "(anon)")]
            for c in inner(n):
                self.walk(c, sc, fn, dependent, record)
            return
        if k in ("ClassTemplateDecl", "FunctionTemplateDecl"):
            first = True
            for c in inner(n):
                ck = c.get("kind")
                if ck in RECORD_KINDS or ck in FUNC_KINDS:
                    # the first record / function is the pattern (dependent), the others are
                    # specialisations (fully resolved)
                    is_pattern = first and ck in ("CXXRecordDecl",) + tuple(FUNC_KINDS) and \
                        ck != "ClassTemplateSpecializationDecl"
                    self.walk(c, scope, fn, dependent or is_pattern, record)
                    first = False
            return
        if k in RECORD_KINDS:
            name = n.get("name", "(lambda)")
            self.records[n.get("id")] = (name, dependent)
            sc = scope + [name]
            for c in inner(n):
                self.walk(c, sc, fn, dependent, name)
            return
        if k in FUNC_KINDS:
            i = n.get("id")
            pc = n.get("parentDeclContextId")
            rec = record
            sc = scope
            if pc and pc in self.records and (record is None or fn is None and k != "FunctionDecl" and record != self.records[pc][0]):
                rec = self.records[pc][0]
                dependent = dependent or self.records[pc][1]
                sc = ["vita", rec]
            if i in self.funcs and (has_body(self.funcs[i]) or not inner(n)):
                return          # a bare back-reference to a declaration already indexed
            self.funcs[i] = n
            self.info[i] = {"name": "::".join([x for x in sc if x != "vita"] + [n.get("name", "?")]),
                            "dependent": dependent, "record": rec,
                            "simple": n.get("name", "?")}
            self.by_name.setdefault(n.get("name"), []).append(i)
            if k == "CXXConstructorDecl":
                self.ctors.setdefault(rec, []).append(i)
            for c in inner(n):
                self.walk(c, sc + [n.get("name", "?")], i, dependent, rec)
            return
        if k == "VarDecl":
            self.vars[n.get("id")] = {"node": n, "fn": fn, "record": record,
                                      "name": "::".join([x for x in scope if x != "vita"] + [n.get("name", "?")])}
            if fn is not None and n.get("storageClass") != "static" and not n.get("tls"):
                self.local_ids.add(n.get("id"))
        if k in ("ParmVarDecl", "BindingDecl", "DecompositionDecl"):
            self.local_ids.add(n.get("id"))
        for c in inner(n):
            self.walk(c, scope, fn, dependent, record)

    def definition(self, i):
        """the node carrying the body for declaration id i (or None)"""
        n = self.funcs.get(i)
        if n is not None and has_body(n):
            return i
        j = self.def_of.get(i)
        if j is not None:
            return j
        return None


def is_const_type(t):
    t = t.strip()
    return t.startswith("const ") or t.startswith("constexpr ") or " const" in t.split("<")[0] and \
        not t.rstrip().endswith("*")


def base_root(n):
    """root of the object expression of a member call: this / local / param / member-of-this / other"""
    while True:
        k = n.get("kind")
        if k == "CXXThisExpr":
            return "this"
        if k == "DeclRefExpr":
            return ("decl", n.get("referencedDecl", {}).get("id"), n.get("referencedDecl", {}).get("kind"))
        cs = inner(n)
        if k == "MemberExpr" and cs:
            n = cs[0]
            continue
        if k in ("ImplicitCastExpr", "ParenExpr", "UnaryOperator", "ArraySubscriptExpr", "CXXStaticCastExpr",
                 "CXXOperatorCallExpr", "MaterializeTemporaryExpr", "CXXBindTemporaryExpr", "ExprWithCleanups",
                 "CXXMemberCallExpr", "CXXConstCastExpr", "CXXReinterpretCastExpr") and cs:
            # operator calls: the object is the second child (the first is the callee)
            n = cs[1] if k == "CXXOperatorCallExpr" and len(cs) > 1 else cs[0]
            continue
        return ("other", k)


def analyse(ix):
    roots = []
    for i, n in ix.funcs.items():
        inf = ix.info[i]
        if n.get("name") == "signature" and inf["record"] in ROOT_CLASSES and not inf["dependent"] and has_body(n):
            roots.append(i)
    classes = sorted({ix.info[i]["record"] for i in roots})
    if classes != sorted(ROOT_CLASSES):
        raise Refuse("signature() with a body expected in %s, found in %s" % (ROOT_CLASSES, classes))

    todo, done = list(roots), []
    globals_, externals, this_writes, foreign, unresolved = set(), set(), set(), set(), set()

    def callee(fid, i, name, via):
        """record the call of declaration id i"""
        d = ix.definition(i)
        if d is None:
            n = ix.funcs.get(i)
            if n is None:
                externals.add(name)
                return
            if n.get("isImplicit") or n.get("explicitlyDefaulted") or n.get("implicit"):
                return
            if n.get("pure"):
                return
            if ix.info[i]["dependent"]:
                unresolved.add(ix.info[i]["name"] + " (dependent)")
                return
            # a vita function declared here, defined in a .cc that is not part of the TU
            unresolved.add(ix.info[i]["name"] + " (no body in the translation unit)")
            return
        if ix.info[d]["dependent"]:
            unresolved.add(ix.info[d]["name"] + " (dependent)")
            return
        if d not in done and d not in todo:
            todo.append(d)

    while todo:
        fid = todo.pop(0)
        if fid in done:
            continue
        done.append(fid)
        fn = ix.funcs[fid]
        fname = ix.info[fid]["name"]
        is_const_method = fn.get("kind") == "CXXMethodDecl" and qual(fn).rstrip().endswith("const")

        def visit(n, lam_depth=0):
            k = n.get("kind")
            if k == "DeclRefExpr":
                rd = n.get("referencedDecl", {})
                rk, rid = rd.get("kind"), rd.get("id")
                if rk in FUNC_KINDS:
                    callee(fid, rid, rd.get("name", "?"), "ref")
                elif rk == "VarDecl" and rid not in ix.local_ids:
                    v = ix.vars.get(rid)
                    if v is None:
                        globals_.add((fname, rd.get("name", "?"), "unknown", False,
                                      is_const_type(rd.get("type", {}).get("qualType", ""))))
                    else:
                        vn = v["node"]
                        storage = "staticLocal" if v["fn"] is not None else \
                            ("staticMember" if v["record"] is not None else "namespaceScope")
                        globals_.add((fname, v["name"], storage, bool(vn.get("tls")),
                                      bool(vn.get("constexpr")) or is_const_type(qual(vn))))
            elif k == "MemberExpr":
                rid = n.get("referencedMemberDecl")
                if rid in ix.funcs:
                    m = ix.funcs[rid]
                    callee(fid, rid, n.get("name", "?"), "member")
                    if is_virtual(ix, rid):
                        for j in ix.by_name.get(m.get("name"), []):
                            o = ix.funcs[j]
                            if j != rid and o.get("kind") == "CXXMethodDecl" and qual(o) == qual(m) and \
                                    not ix.info[j]["dependent"] and ix.info[j]["record"] is not None:
                                callee(fid, j, n.get("name", "?"), "virtual")
                    if m.get("kind") == "CXXMethodDecl" and not qual(m).rstrip().endswith("const") and \
                            not m.get("storageClass") == "static":
                        r = base_root(inner(n)[0]) if inner(n) else ("other", "?")
                        ok = r == "this" or r[0] == "decl"
                        if not ok:
                            foreign.add((fname, ix.info[rid]["name"]))
                elif rid is not None and n.get("name") and rid not in ix.vars:
                    # a data member or a member function of a class outside namespace vita
                    t = qual(n)
                    if "(" in t and ")" in t and "bound member" in t or t == "<bound member function type>":
                        base = inner(n)[0] if inner(n) else {}
                        bt = base.get("type", {}).get("desugaredQualType", base.get("type", {}).get("qualType", "?"))
                        externals.add(ext_name(bt, n.get("name")))
                        if not is_const_memfn(n) and inner(n):
                            r = base_root(inner(n)[0])
                            ok = r == "this" or r[0] == "decl"
                            if not ok:
                                foreign.add((fname, ext_name(bt, n.get("name"))))
                elif rid in ix.vars:        # static data member through an object
                    v = ix.vars[rid]
                    vn = v["node"]
                    globals_.add((fname, v["name"], "staticMember", bool(vn.get("tls")),
                                  bool(vn.get("constexpr")) or is_const_type(qual(vn))))
            elif k == "CXXConstructExpr":
                t = qual(n)
                cls = t.replace("const ", "").strip()
                simple = cls.split("<")[0].split("::")[-1]
                cands = [j for j in ix.ctors.get(simple, []) if qual(ix.funcs[j]) == n.get("ctorType", {}).get("qualType")
                         and not ix.info[j]["dependent"]]
                if cands:
                    for j in cands[:1] if len(cands) == 1 else cands:
                        callee(fid, j, simple, "ctor")
                elif cls.startswith("vita::") or simple in ix.ctors:
                    # implicit / defaulted special members are not dumped with a body: harmless
                    # (memberwise); anything else must be found
                    ct = n.get("ctorType", {}).get("qualType", "")
                    if not implicit_ctor(simple, ct):
                        unresolved.add("%s::%s %s" % (cls, simple, ct))
                else:
                    externals.add(ext_name(cls, "(constructor)"))
            elif k in ("CXXNewExpr", "CXXDeleteExpr"):
                externals.add("operator new/delete")
            elif k in ("BinaryOperator", "CompoundAssignOperator", "UnaryOperator") and is_const_method:
                op = n.get("opcode", "")
                if (k == "BinaryOperator" and op == "=") or k == "CompoundAssignOperator" or \
                        (k == "UnaryOperator" and op in ("++", "--")):
                    w = written_member(inner(n)[0])
                    if w:
                        this_writes.add((fname, w))
            elif k == "CXXOperatorCallExpr" and is_const_method:
                cs = inner(n)
                if len(cs) >= 2:
                    cn = callee_simple(cs[0])
                    if cn in ("operator=", "operator+=", "operator-=", "operator++", "operator--", "operator^=",
                              "operator*=", "operator|=", "operator&="):
                        w = written_member(cs[1])
                        if w:
                            this_writes.add((fname, w))
            elif k == "CXXMemberCallExpr" and is_const_method:
                # a non-const member function called on a member of *this from a const method
                cs = inner(n)
                if cs and cs[0].get("kind") == "MemberExpr":
                    me = cs[0]
                    rid = me.get("referencedMemberDecl")
                    nonconst = (rid in ix.funcs and not qual(ix.funcs[rid]).rstrip().endswith("const")) or \
                        (rid not in ix.funcs and not is_const_memfn(me))
                    if nonconst and inner(me):
                        w = written_member(inner(me)[0])
                        if w:
                            this_writes.add((fname, w))
            for c in inner(n):
                visit(c)

        for c in inner(fn):
            if c.get("kind") != "ParmVarDecl":
                visit(c)

    if unresolved:
        raise Refuse("calls on the signature path that cannot be resolved: " + "; ".join(sorted(unresolved)))
    return {"functions": sorted(ix.info[i]["name"] + " : " + qual(ix.funcs[i]) for i in done),
            "globals": sorted(globals_), "externals": sorted(externals),
            "thisWrites": sorted(this_writes), "foreign": sorted(foreign)}


def is_virtual(ix, i):
    """virtual in any declaration of the chain, or an override of something"""
    seen = set()
    while i and i not in seen and i in ix.funcs:
        seen.add(i)
        m = ix.funcs[i]
        if m.get("virtual") or any(c.get("kind") in ("OverrideAttr", "FinalAttr") for c in inner(m)):
            return True
        i = m.get("previousDecl")
    for a, b in ix.def_of.items():
        if b in seen and a not in seen:
            return is_virtual(ix, a)
    return False


def implicit_ctor(simple, ct):
    """copy / move / default constructor signature of class `simple`"""
    a = ct[ct.find("(") + 1:ct.rfind(")")].strip() if "(" in ct else ""
    a = a.replace("vita::", "")
    return a in ("", "void", "const %s &" % simple, "%s &&" % simple) or \
        a.split("<")[0] in ("const %s" % simple, simple)


def callee_simple(n):
    while n.get("kind") in ("ImplicitCastExpr", "ParenExpr") and inner(n):
        n = inner(n)[0]
    if n.get("kind") == "DeclRefExpr":
        return n.get("referencedDecl", {}).get("name")
    if n.get("kind") == "MemberExpr":
        return n.get("name")
    return None


def is_const_memfn(me):
    """for members of classes outside vita the JSON carries no declaration: decide by the
    constness of the object expression the (overload-resolved) call is made on"""
    b = inner(me)[0] if inner(me) else {}
    t = b.get("type", {}).get("qualType", "")
    return t.strip().startswith("const ")


def written_member(n):
    """name of the member of *this an lvalue expression designates (else None)"""
    while True:
        k = n.get("kind")
        cs = inner(n)
        if k == "MemberExpr":
            b = cs[0] if cs else {}
            while b.get("kind") in ("ImplicitCastExpr", "ParenExpr") and inner(b):
                b = inner(b)[0]
            if b.get("kind") == "CXXThisExpr":
                return n.get("name")
            if cs:
                # a.b.c : written object is a sub-object of a member of this
                r = cs[0]
                while r.get("kind") in ("ImplicitCastExpr", "ParenExpr") and inner(r):
                    r = inner(r)[0]
                n = r
                if n.get("kind") == "CXXThisExpr":
                    return None
                continue
            return None
        if k in ("ImplicitCastExpr", "ParenExpr", "ArraySubscriptExpr") and cs:
            n = cs[0]
            continue
        if k == "CXXOperatorCallExpr" and len(cs) > 1:
            n = cs[1]
            continue
        return None


def ext_name(base_type, name):
    t = base_type.replace("const ", "").replace("&", "").replace("*", "").strip()
    t = t.split("<")[0].strip()
    if t.startswith("class "):
        t = t[6:]
    return "%s::%s" % (t, name) if t else name


def lean_str(s):
    return '"' + s.replace("\\", "\\\\").replace('"', '\\"') + '"'


def emit(path):
    ix = Ix(load_ast())
    r = analyse(ix)
    L = ["-- GENERATED by tools/translate_sigpath.py from the clang AST of the current working tree",
         "-- (regenerated on every check run; do not edit)",
         "import Vita.C03.SigPath", "namespace Vita.C03.GenSigPath", "open Vita.C03.SigPath", "",
         "/-- every function with a body in namespace vita that a `signature()` call can reach -/",
         "def functions : List String := ["]
    L += ["  " + lean_str(f) + ("," if i + 1 < len(r["functions"]) else "") for i, f in enumerate(r["functions"])]
    L += ["]", "", "/-- variables with static storage duration mentioned by those functions -/",
          "def globals : List GlobalUse := ["]
    L += ["  ⟨%s, %s, .%s, %s, %s⟩%s" % (lean_str(f), lean_str(v), st, "true" if tls else "false",
                                        "true" if c else "false", "," if i + 1 < len(r["globals"]) else "")
          for i, (f, v, st, tls, c) in enumerate(r["globals"])]
    L += ["]", "", "/-- callees whose body is not in namespace vita (standard library) -/",
          "def externals : List String := ["]
    L += ["  " + lean_str(f) + ("," if i + 1 < len(r["externals"]) else "") for i, f in enumerate(r["externals"])]
    L += ["]", "", "/-- members of `*this` written by const member functions (function, member) -/",
          "def thisWrites : List (String × String) := ["]
    L += ["  (%s, %s)%s" % (lean_str(f), lean_str(m), "," if i + 1 < len(r["thisWrites"]) else "")
          for i, (f, m) in enumerate(r["thisWrites"])]
    L += ["]", "", "/-- non-const member functions called on objects that are not local / parameter / *this -/",
          "def foreignCalls : List (String × String) := ["]
    L += ["  (%s, %s)%s" % (lean_str(f), lean_str(m), "," if i + 1 < len(r["foreign"]) else "")
          for i, (f, m) in enumerate(r["foreign"])]
    L += ["]", "", "end Vita.C03.GenSigPath", ""]
    txt = "\n".join(L)
    old = open(path).read() if os.path.exists(path) else None
    if old != txt:
        os.makedirs(os.path.dirname(path), exist_ok=True)
        with open(path, "w") as f:
            f.write(txt)
    r["changed"] = old is not None and old != txt
    return r


if __name__ == "__main__":
    here = os.path.dirname(os.path.dirname(os.path.abspath(__file__)))
    try:
        r = emit(os.path.join(here, "lean", "Vita", "C03", "GenSigPath.lean"))
        for k in ("functions", "globals", "externals", "thisWrites", "foreign"):
            print(k, len(r[k]))
            for x in r[k]:
                print("   ", x)
    except Refuse as e:
        print("REFUSE:", e)
        sys.exit(2)
