#!/usr/bin/env python3
"""C20 translator: from the clang AST of /repo's *current* working tree extract

  (1) the STRUCTURE of every function of src/utility/small_vector.{h,tcc} — the member functions
      (constructors, destructor, both assignment operators, clear, push_back, emplace_back, append,
      insert, resize, reserve, free_heap_memory, grow, grow(n), the inline accessors of the header) and
      the free functions (destroy_range, uninitialized_copy/move, the six relational operators):
      the tree of `if` / `for` / `return` / declarations / expression statements with the conditions
      and the statements as NORMALISED SOURCE TEXT (comments and white space removed, statements that
      come from a macro expansion — `assert` under NDEBUG — dropped);
  (2) the set of small_vector members that the library USES: for every translation unit of
      src/kernel and src/utility the implicit instantiations `small_vector<T, S>` and, per
      instantiation, the member functions / constructors / relational operators clang marks as used
      (this includes the members reached through fitness_t, the gene argument vectors and the offspring
      vectors of evolution_recombination.h);

and write both into lean/Vita/C20/Gen.lean (syntax only).  The meaning is in Vita/C20/Skeleton.lean:
the hand-written skeletons the model implements (Props: `skeleton_matches_model`) and the table of
modelled members (Props: `users_covered`).
Refuses (raises `Refuse`) on any statement kind it does not know.
"""
import concurrent.futures as cf
import hashlib
import json
import os
import re
import sys

sys.path.insert(0, os.path.dirname(os.path.abspath(__file__)))
import cxx2lean  # noqa: E402
from cxx2lean import Refuse, ast_dump, kids  # noqa: E402

HDR = ("utility", "small_vector.h")
TCC = ("utility", "small_vector.tcc")


def src_path(which):
    return os.path.join(cxx2lean.REPO, "src", *which)


# ---------------------------------------------------------------------------
# (1) skeletons
# ---------------------------------------------------------------------------

def strip_comments(txt):
    txt = re.sub(r"/\*.*?\*/", " ", txt, flags=re.S)
    return re.sub(r"//[^\n]*", " ", txt)


def norm(txt):
    """source text -> canonical token string: comments removed, white space kept only between two
    identifier characters"""
    t = re.sub(r"\s+", " ", strip_comments(txt)).strip()
    out = []
    for i, ch in enumerate(t):
        if ch == " ":
            a, b = t[i - 1], t[i + 1]
            if not ((a.isalnum() or a == "_") and (b.isalnum() or b == "_")):
                continue
        out.append(ch)
    return "".join(out)


class Fn:
    """One function body with its source file (clang's JSON omits the file of a location when it
    is the file of the previously printed one: every node of a body lies in the file of the
    function unless it comes from a macro expansion)."""

    def __init__(self, decl, text):
        self.decl, self.text = decl, text

    def is_macro(self, n):
        r = n.get("range", {})
        return "expansionLoc" in r.get("begin", {}) or "spellingLoc" in r.get("begin", {}) or \
            "expansionLoc" in r.get("end", {}) or "spellingLoc" in r.get("end", {})

    def slice(self, n):
        r = n.get("range", {})
        b, e = r.get("begin", {}), r.get("end", {})
        if "offset" not in b or "offset" not in e:
            raise Refuse("node %s without source range" % n.get("kind"))
        return norm(self.text[b["offset"]: e["offset"] + e.get("tokLen", 0)])

    def stmts(self, n):
        """a statement -> list of Sk terms (Lean syntax)"""
        if not isinstance(n, dict) or "kind" not in n:
            return []
        k = n["kind"]
        if self.is_macro(n):
            return []                                   # assert(...) under NDEBUG
        if k == "CompoundStmt":
            out = []
            for c in n.get("inner", []):
                out += self.stmts(c)
            return out
        if k == "NullStmt":
            return []
        if k == "IfStmt":
            inner = n.get("inner", [])
            if n.get("hasInit") or n.get("hasVar"):
                raise Refuse("if with init / condition variable")
            cond, thn = inner[0], inner[1]
            els = inner[2] if n.get("hasElse") and len(inner) > 2 else None
            c = self.slice(cond)
            if n.get("isConstexpr"):
                c = "constexpr " + c
            return [("ite", c, self.stmts(thn), self.stmts(els) if els is not None else [])]
        if k == "ForStmt":
            inner = n.get("inner", [])
            if len(inner) != 5:
                raise Refuse("for statement with %d slots" % len(inner))
            init, _var, cond, inc, body = inner
            hdr = ";".join(self.slice(x).rstrip(";") if isinstance(x, dict) and "kind" in x else "" for x in (init, cond, inc))
            return [("loop", hdr, self.stmts(body))]
        if k == "CXXForRangeStmt" or k == "WhileStmt" or k == "DoStmt" or k == "SwitchStmt":
            raise Refuse("statement kind %s is not expected in small_vector" % k)
        if k == "ReturnStmt":
            ks = kids(n)
            return [("ret", self.slice(ks[0]) if ks else "")]
        if k == "DeclStmt":
            return [("decl", self.slice(n).rstrip(";"))]
        if k in ("CallExpr", "CXXMemberCallExpr", "CXXOperatorCallExpr", "BinaryOperator", "CompoundAssignOperator",
                 "UnaryOperator", "CXXNewExpr", "CXXDeleteExpr", "ExprWithCleanups", "ParenExpr",
                 "CXXDependentScopeMemberExpr", "CXXPseudoDestructorExpr", "CXXStaticCastExpr", "CStyleCastExpr"):
            return [("stmt", self.slice(n))]
        raise Refuse("unknown statement kind %s" % k)


def lean_str(s):
    return '"' + s.replace("\\", "\\\\").replace('"', '\\"') + '"'


def render(sk, ind):
    """list of Sk terms -> Lean list literal"""
    if not sk:
        return "[]"
    pad = " " * (ind + 2)
    items = []
    for t in sk:
        if t[0] == "ite":
            items.append("%s.ite %s %s %s" % (pad, lean_str(t[1]), render(t[2], ind + 4), render(t[3], ind + 4)))
        elif t[0] == "loop":
            items.append("%s.loop %s %s" % (pad, lean_str(t[1]), render(t[2], ind + 4)))
        else:
            items.append("%s.%s %s" % (pad, t[0], lean_str(t[1])))
    return "[\n" + ",\n".join(items) + "]"


def body_of(fn):
    for c in fn.get("inner", []):
        if isinstance(c, dict) and c.get("kind") == "CompoundStmt":
            return c
    return None


def sig_key(fn, ordinal):
    """Lean identifier for a function: name (+ distinguishing suffix for overloads)"""
    name = fn.get("name", "")
    t = fn.get("type", {}).get("qualType", "")
    base = {"operator=": "assign", "operator[]": "index", "operator==": "opEq", "operator!=": "opNe",
            "operator<": "opLt", "operator>": "opGt", "operator<=": "opLe", "operator>=": "opGe"}.get(name)
    if base is None:
        base = "ctor" if fn.get("kind") == "CXXConstructorDecl" else "dtor" if fn.get("kind") == "CXXDestructorDecl" \
            else re.sub(r"\W", "_", name)
    if fn.get("kind") == "CXXConstructorDecl":
        if "initializer_list" in t:
            return "ctorList"
        if "&&" in t:
            return "ctorMove"
        if "const small_vector<T, S> &" in t or "const small_vector &" in t:
            return "ctorCopy"
        if "const T &" in t:
            return "ctorNX"
        return "ctorN"
    if name == "operator=":
        return "assignMove" if "&&" in t else "assignCopy"
    if name == "grow":
        return "growN" if "size_type" in t else "grow"
    if name in ("operator[]", "data", "begin", "end", "front", "back", "rbegin", "rend"):
        const = t.rstrip().endswith("const")
        return base + ("Const" if const else "")
    return base


def skeletons():
    """{lean name: skeleton} for every function with a body in small_vector.{h,tcc}"""
    htxt = open(src_path(HDR)).read()
    ttxt = open(src_path(TCC)).read()
    out = {}
    order = []

    def add(fn, text):
        b = body_of(fn)
        if b is None:
            return
        key = sig_key(fn, 0) + "Sk"
        if key in out:
            raise Refuse("two functions map to the skeleton name %s" % key)
        out[key] = Fn(fn, text).stmts(b)
        order.append(key)

    docs = ast_dump("smallvec_tu.cc", "small_vector")
    for d in docs:
        k = d.get("kind")
        if k == "ClassTemplateDecl" and d.get("name") == "small_vector":
            for c in kids(d):
                if c.get("kind") == "CXXRecordDecl":
                    for m in kids(c):
                        if m.get("kind") in ("CXXMethodDecl", "CXXConstructorDecl", "CXXDestructorDecl"):
                            add(m, htxt)
        elif k in ("CXXMethodDecl", "CXXConstructorDecl", "CXXDestructorDecl"):
            add(d, ttxt)
        elif k == "FunctionTemplateDecl":
            for m in kids(d):
                if m.get("kind") == "CXXMethodDecl" and body_of(m) is not None:
                    add(m, ttxt)
                    break
    for filt in ("vita::destroy_range", "vita::uninitialized_", "vita::operator"):
        for d in ast_dump("smallvec_tu.cc", filt):
            if d.get("kind") != "FunctionTemplateDecl":
                continue
            f = d.get("loc", {}).get("file") or d.get("range", {}).get("begin", {}).get("file") or ""
            inc = d.get("loc", {}).get("includedFrom", {}).get("file", "")
            for m in kids(d):
                if m.get("kind") == "FunctionDecl" and body_of(m) is not None:
                    # only the functions of small_vector.tcc (the TU contains nothing else of vita)
                    add(m, ttxt)
                    break
    return out, order


# ---------------------------------------------------------------------------
# (2) members used by the library
# ---------------------------------------------------------------------------

def norm_sig(name, kind, qual, spec, elem):
    """member signature with the element type / the instantiation abstracted"""
    q = qual
    q = q.replace("vita::small_vector::", "")
    q = re.sub(r"vita::small_vector<[^()]*?, \d+>::", "", q)
    q = re.sub(r"(vita::)?small_vector<[^()]*?, \d+>", "small_vector", q)
    q = re.sub(r"(std::)?initializer_list<.*>", "initializer_list<T>", q)
    if elem:
        q = re.sub(r"(?<![\w:])" + re.escape(elem) + r"(?![\w:])", "T", q)
        short = elem.split("::")[-1]
        q = re.sub(r"(?<![\w:])" + re.escape(short) + r"(?![\w:])", "T", q)
    q = re.sub(r"(std::)?initializer_list<.*>", "initializer_list<T>", q)
    if kind == "CXXConstructorDecl":
        return "small_vector" + q[q.index("("):]
    if kind == "CXXDestructorDecl":
        return "~small_vector()"
    m = re.match(r"^(.*?)\s*(\(.*)$", q)
    return name + (m.group(2) if m else "")


def used_in_tu(path):
    """[(instantiation, member signature)] clang marks as used in one translation unit"""
    cmd = ["clang++-14", "-std=c++17", "-I" + os.path.join(cxx2lean.REPO, "src"),
           "-isystem", os.path.join(cxx2lean.REPO, "src", "third_party"), "-w", "-fsyntax-only",
           "-DVITA_VERIF", "-DNDEBUG", "-Xclang", "-ast-dump=json"]
    import subprocess

    def dump(filt):
        p = subprocess.run(cmd + ["-Xclang", "-ast-dump-filter=" + filt, path], stdout=subprocess.PIPE,
                           stderr=subprocess.PIPE)
        if p.returncode != 0:
            raise Refuse("clang failed on %s: %s" % (path, p.stderr.decode("utf-8", "replace")[-1500:]))
        txt = p.stdout.decode("utf-8", "replace")
        dec, i, docs = json.JSONDecoder(), 0, []
        while i < len(txt):
            while i < len(txt) and txt[i].isspace():
                i += 1
            if i >= len(txt):
                break
            o, j = dec.raw_decode(txt, i)
            docs.append(o)
            i = j
        return docs

    out = set()
    for d in dump("small_vector"):
        if d.get("kind") != "ClassTemplateDecl" or d.get("name") != "small_vector":
            continue
        for c in kids(d):
            if c.get("kind") != "ClassTemplateSpecializationDecl":
                continue
            targs = [a for a in c.get("inner", []) if a.get("kind") == "TemplateArgument"]
            elem = targs[0].get("type", {}).get("qualType", "?") if targs else "?"
            S = targs[1].get("value", "?") if len(targs) > 1 else "?"
            spec = "small_vector<%s, %s>" % (elem, S)
            for m in kids(c):
                k = m.get("kind")
                if k in ("CXXMethodDecl", "CXXConstructorDecl", "CXXDestructorDecl"):
                    if m.get("isUsed") and not m.get("isImplicit"):
                        out.add((spec, norm_sig(m.get("name", ""), k, m.get("type", {}).get("qualType", ""), spec, elem)))
                elif k == "FunctionTemplateDecl":
                    subs = [x for x in kids(m) if x.get("kind") == "CXXMethodDecl"]
                    if any(x.get("isUsed") for x in subs):
                        pat = subs[0].get("type", {}).get("qualType", "")
                        out.add((spec, norm_sig(m.get("name", ""), "CXXMethodDecl", pat, spec, elem)))
    # the relational operators of small_vector.tcc: function templates <T, LS, RS>
    for d in dump("vita::operator"):
        if d.get("kind") != "FunctionTemplateDecl":
            continue
        tps = [x.get("name") for x in kids(d) if x.get("kind") in ("TemplateTypeParmDecl", "NonTypeTemplateParmDecl")]
        if tps != ["T", "LS", "RS"]:
            continue
        for m in kids(d):
            if m.get("kind") == "FunctionDecl" and m.get("isUsed"):
                t = m.get("type", {}).get("qualType", "")
                sp = re.findall(r"small_vector<[^()]*?, \d+>", t)
                out.add((" / ".join(sorted(set(sp))) or "small_vector<?, ?>", d.get("name") + "(const small_vector &, const small_vector &)"))
    return sorted(out)


def library_sources():
    srcs = []
    for sub in ("kernel", "utility"):
        for d, dn, fs in os.walk(os.path.join(cxx2lean.REPO, "src", sub)):
            dn.sort()
            for f in sorted(fs):
                if f.endswith(".cc"):
                    srcs.append(os.path.join(d, f))
    return sorted(srcs)


def used_members(jobs=6, scratch=None):
    """{(instantiation, member signature)} over all translation units of the library.  Fast path: one
    translation unit that includes every .cc (two clang runs); if that does not compile (two files
    that cannot live in one TU) every file is analysed on its own."""
    srcs = library_sources()
    scratch = scratch or os.path.join(os.path.dirname(cxx2lean.HERE), "build", "c20_unity")
    os.makedirs(scratch, exist_ok=True)
    unity = os.path.join(scratch, "unity.cc")
    first = [x for x in srcs if os.sep + "utility" + os.sep in x]          # explicit specialisations first
    users_tu = os.path.join(cxx2lean.HERE, "tu", "smallvec_users_tu.cc")
    with open(unity, "w") as f:
        for x in first + [y for y in srcs if y not in first] + [users_tu]:
            f.write('#include "%s"\n' % x)
    try:
        return set(used_in_tu(unity)), "unity"
    except Refuse:
        pass
    with cf.ThreadPoolExecutor(jobs) as ex:
        res = list(ex.map(used_in_tu, srcs + [users_tu]))
    return {x for r in res for x in r}, "per-file"


# ---------------------------------------------------------------------------

def generate():
    sk, order = skeletons()
    used, mode = used_members()
    lines = ["/-",
             "  GENERATED by tools/translate_smallvec.py from the clang AST of the working tree — do not edit.",
             "  (1) the statement structure of every function of src/utility/small_vector.{h,tcc}",
             "  (2) the small_vector members the translation units of src/kernel and src/utility use",
             "-/",
             "import Vita.C20.Sk",
             "namespace Vita.C20.Gen",
             "open Vita.C20 (Sk)",
             ""]
    for key in order:
        lines.append("def %s : List Sk := %s" % (key, render(sk[key], 0)))
        lines.append("")
    lines.append("/-- every function found, in source order -/")
    lines.append("def functions : List String := [" + ", ".join(lean_str(k) for k in order) + "]")
    lines.append("")
    lines.append("/-- (instantiation, member) pairs clang marks as used somewhere in src/kernel, src/utility -/")
    lines.append("def usedMembers : List (String × String) := [")
    items = sorted(used)
    for i, (spec, sig) in enumerate(items):
        lines.append("  (%s, %s)%s" % (lean_str(spec), lean_str(sig), "," if i + 1 < len(items) else ""))
    lines.append("]")
    lines.append("")
    keys = sorted({sig for (_, sig) in used})
    lines.append("/-- the distinct member signatures -/")
    lines.append("def usedKeys : List String := [")
    for i, k in enumerate(keys):
        lines.append("  %s%s" % (lean_str(k), "," if i + 1 < len(keys) else ""))
    lines.append("]")
    lines.append("")
    lines.append("end Vita.C20.Gen")
    by = {}
    for spec, sig in items:
        by.setdefault(spec, []).append(sig)
    return "\n".join(lines) + "\n", {"functions": order, "used": by, "used_keys": keys, "mode": mode}


def emit(path):
    """(re)write Gen.lean; returns (info, changed)"""
    txt, info = generate()
    old = open(path).read() if os.path.exists(path) else None
    if old != txt:
        with open(path, "w") as f:
            f.write(txt)
    return info, old != txt


if __name__ == "__main__":
    out = sys.argv[1] if len(sys.argv) > 1 else os.path.join(os.path.dirname(cxx2lean.HERE), "lean", "Vita", "C20", "Gen.lean")
    info, changed = emit(out)
    print("functions:", len(info["functions"]), "used member signatures:", len(info["used_keys"]), "changed:", changed)
