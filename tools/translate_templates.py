#!/usr/bin/env python3
"""C19 translator: extract, from the clang AST of /repo's *current* working tree, what every
shipped symbol prints in each of the four export formats

  * every `display(format)` override of a function class  -> its string templates
  * `function::display` (the default `NAME(%%1%%,...)`)       -> checked shape, expanded per class
  * every `display(param, format)` override of a terminal   -> literal / to_string form
  * `terminal::display` (default)                           -> checked shape

and write them as a table into lean/Vita/C19/GenTemplates.lean (syntax only: byte strings).
Refuses (raises `Refuse`) on any statement / expression shape it does not know.
"""
import os
import sys

sys.path.insert(0, os.path.dirname(os.path.abspath(__file__)))
from cxx2lean import Refuse, ast_dump, kids, qtype, peel, callee_name, find_all  # noqa: E402

FORMATS = ["c_format", "cpp_format", "mql_format", "python_format"]
NAMESPACES = ["real", "integer", "boolean", "str"]


def c_unescape(lit):
    """value of a clang StringLiteral `"..."` (possibly `"a" "b"` is already merged)."""
    if len(lit) < 2 or lit[0] != '"' or lit[-1] != '"':
        raise Refuse("unexpected string literal spelling %r" % lit)
    s, out, i = lit[1:-1], [], 0
    simple = {"n": 10, "t": 9, "\\": 92, '"': 34, "'": 39, "0": 0, "r": 13, "?": 63}
    while i < len(s):
        ch = s[i]
        if ch == "\\":
            i += 1
            if i >= len(s):
                raise Refuse("dangling backslash in %r" % lit)
            e = s[i]
            if e in simple:
                out.append(simple[e])
            elif e == "x":
                j = i + 1
                while j < len(s) and s[j] in "0123456789abcdefABCDEF":
                    j += 1
                out.append(int(s[i + 1:j], 16) & 255)
                i = j - 1
            else:
                raise Refuse("escape \\%s not handled in %r" % (e, lit))
        else:
            out += list(ch.encode("utf-8"))
        i += 1
    return bytes(out)


def string_literal(n):
    """bytes of an expression that is just a string literal converted to std::string."""
    n = peel(n)
    while n.get("kind") in ("ImplicitCastExpr",) and len(kids(n)) == 1:
        n = peel(kids(n)[0])
    if n.get("kind") == "CXXConstructExpr":
        ks = [k for k in kids(n) if k.get("kind") != "CXXDefaultArgExpr"]
        if len(ks) == 1:
            return string_literal(ks[0])
    if n.get("kind") == "StringLiteral":
        return c_unescape(n.get("value", ""))
    return None


def ret_expr(n):
    """the expression of a `return` in a display method as a list of parts (string concatenation)."""
    lit = string_literal(n)
    if lit is not None:
        return [("lit", lit)]
    e = peel(n)
    k = e.get("kind")
    if k == "CXXOperatorCallExpr" and callee_name(e) == "operator+" and len(kids(e)) == 3:
        return ret_expr(kids(e)[1]) + ret_expr(kids(e)[2])
    return [ret_atom(e)]


def ret_atom(e):
    k = e.get("kind")
    if k == "CallExpr" and callee_name(e) == "to_string":
        arg = kids(e)[1]
        ty = qtype(peel(kids(e)[0])) if False else qtype(kids(e)[0])
        a = arg
        casts = []
        while a.get("kind") in ("ImplicitCastExpr", "CXXStaticCastExpr", "ParenExpr", "CXXFunctionalCastExpr") \
                and len(kids(a)) == 1:
            if a.get("castKind") not in (None, "NoOp", "LValueToRValue"):
                casts.append(a.get("castKind"))
            a = kids(a)[0]
        if a.get("kind") == "DeclRefExpr" and a.get("referencedDecl", {}).get("kind") == "ParmVarDecl":
            src = "param"
        elif a.get("kind") == "MemberExpr" and a.get("name") == "val_":
            src = "val"
        else:
            raise Refuse("to_string of an unknown operand (%s)" % a.get("kind"))
        argty = qtype(arg)
        if casts == [] and argty in ("double", "const double", "vita::terminal_param_t"):
            return ("to_string_double", src)
        if casts == ["FloatingToIntegral"] and argty == "int":
            return ("to_string_int", src)
        if casts == [] and argty in ("int", "const int"):
            return ("to_string_int", src)
        raise Refuse("to_string: unhandled operand type %r casts %r" % (argty, casts))
    if k == "CXXMemberCallExpr" and callee_name(e) == "name" and len(kids(e)) == 1:
        return ("name",)
    if k == "CXXMemberCallExpr" and callee_name(e) == "display":
        # `function::display()` : the default of the base class
        return ("base_default",)
    if k == "CallExpr" and callee_name(e) == "quote_str":
        a = peel(kids(e)[1])
        if a.get("kind") == "MemberExpr" and a.get("name") == "val_":
            return ("quote_val",)
    raise Refuse("return expression of kind %s not understood" % k)


def flatten_switch(body):
    """sequence of ('case', value) / ('default',) / ('stmt', node) of a switch body."""
    seq = []

    def walk(n):
        k = n.get("kind")
        if k == "CaseStmt":
            ks = kids(n)
            v = ks[0]
            if v.get("kind") != "ConstantExpr" or "value" not in v:
                raise Refuse("case label is not a constant")
            names = find_all(v, lambda x: x.get("kind") == "DeclRefExpr")
            nm = names[0].get("referencedDecl", {}).get("name") if names else None
            seq.append(("case", int(v["value"]), nm))
            walk(ks[-1])
        elif k == "DefaultStmt":
            seq.append(("default",))
            walk(kids(n)[-1])
        else:
            seq.append(("stmt", n))

    if body.get("kind") != "CompoundStmt":
        raise Refuse("switch body is not a compound statement")
    for s in kids(body):
        walk(s)
    return seq


def display_body(m, nparams):
    """{format index: spec} for a display method declaration with a body."""
    params = [c for c in kids(m) if c.get("kind") == "ParmVarDecl"]
    if len(params) != nparams:
        raise Refuse("display with %d parameters" % len(params))
    body = [c for c in kids(m) if c.get("kind") == "CompoundStmt"]
    if len(body) != 1:
        raise Refuse("display without a body")
    st = kids(body[0])
    if len(st) == 1 and st[0].get("kind") == "ReturnStmt":
        spec = ret_expr(kids(st[0])[0])
        return {i: spec for i in range(4)}
    if len(st) == 1 and st[0].get("kind") == "SwitchStmt":
        ks = kids(st[0])
        cond = peel(ks[0])
        while cond.get("kind") == "ImplicitCastExpr":
            cond = peel(kids(cond)[0])
        if cond.get("kind") != "DeclRefExpr" or "format" not in qtype(cond):
            raise Refuse("switch on something that is not the format parameter")
        seq = flatten_switch(ks[-1])
        for it in seq:
            if it[0] == "case" and it[2] in FORMATS and FORMATS.index(it[2]) != it[1]:
                raise Refuse("enumerator %s has value %d" % (it[2], it[1]))
        out = {}
        for f in range(4):
            pos = None
            for i, it in enumerate(seq):
                if it[0] == "case" and it[1] == f:
                    pos = i
            if pos is None:
                for i, it in enumerate(seq):
                    if it[0] == "default":
                        pos = i
            if pos is None:
                raise Refuse("format %d falls out of the switch" % f)
            j = pos
            while j < len(seq) and seq[j][0] != "stmt":
                j += 1
            if j >= len(seq) or seq[j][1].get("kind") != "ReturnStmt":
                raise Refuse("label for format %d is not followed by a return" % f)
            out[f] = ret_expr(kids(seq[j][1])[0])
        return out
    raise Refuse("display body is neither `return e;` nor one switch")


def ctor_info(cls):
    """(name bytes or None, arity or None) from the user-written constructor(s)."""
    name, arity = None, None
    for m in kids(cls):
        if m.get("kind") != "CXXConstructorDecl" or m.get("isImplicit"):
            continue
        for ini in kids(m):
            if ini.get("kind") != "CXXCtorInitializer":
                continue
            ce = find_all(ini, lambda x: x.get("kind") == "CXXConstructExpr" and
                          qtype(x) in ("vita::function", "vita::terminal"))
            if not ce:
                continue
            args = [a for a in kids(ce[0]) if a.get("kind") != "CXXDefaultArgExpr"]
            lit = string_literal(args[0]) if args else None
            if lit is not None:
                name = lit
            if qtype(ce[0]) == "vita::function" and len(args) >= 3:
                il = find_all(args[2], lambda x: x.get("kind") == "InitListExpr")
                if il:
                    arity = len(kids(il[0]))
            if qtype(ce[0]) == "vita::function" and len(args) == 2:
                raise Refuse("function(name, n_args) constructor form not handled")
    return name, arity


def bases(cls):
    return [b.get("type", {}).get("qualType", "") for b in cls.get("bases", [])]


def check_function_default(docs):
    """`function::display`: must build  name() + "(" + "%%1%%" {+ ",%%" + to_string(i+1) + "%%"} + ")"."""
    ms = [d for d in docs if d.get("kind") == "CXXMethodDecl" and d.get("name") == "display"
          and any(k.get("kind") == "CompoundStmt" for k in kids(d))]
    if len(ms) != 1:
        raise Refuse("function::display definition not found (%d)" % len(ms))
    lits = [c_unescape(x.get("value")) for x in find_all(ms[0], lambda x: x.get("kind") == "StringLiteral")]
    if lits != [b"%%1%%", b",%%", b"%%", b"(", b")"]:
        raise Refuse("function::display no longer has the shape NAME(%%1%%,%%2%%,...): literals " + repr(lits))
    calls = {callee_name(x) for x in find_all(ms[0], lambda x: x.get("kind") in
                                              ("CallExpr", "CXXMemberCallExpr", "CXXOperatorCallExpr"))}
    if not {"name", "arity", "to_string"} <= calls:
        raise Refuse("function::display: expected calls to name(), arity(), to_string: " + repr(calls))
    loops = find_all(ms[0], lambda x: x.get("kind") == "ForStmt")
    if len(loops) != 1:
        raise Refuse("function::display: expected one for loop")
    ints = [x.get("value") for x in find_all(ms[0], lambda x: x.get("kind") == "IntegerLiteral")]
    if sorted(ints) != ["1", "1"]:
        raise Refuse("function::display: integer literals changed: " + repr(ints))


def check_terminal_default(docs):
    ms = [d for d in docs if d.get("kind") == "CXXMethodDecl" and d.get("name") == "display"
          and any(k.get("kind") == "CompoundStmt" for k in kids(d))]
    if len(ms) != 1:
        raise Refuse("terminal::display definition not found")
    lits = [c_unescape(x.get("value")) for x in find_all(ms[0], lambda x: x.get("kind") == "StringLiteral")]
    conds = find_all(ms[0], lambda x: x.get("kind") == "ConditionalOperator")
    if lits != [b"_"] or len(conds) != 1:
        raise Refuse("terminal::display no longer `parametric() ? name()+\"_\"+to_string(v) : name()`")


def default_template(name, arity):
    return name + b"(" + b",".join(b"%%" + str(i + 1).encode() + b"%%" for i in range(arity)) + b")"


def translate():
    """-> (functions, terminals)
       functions: [(key, name, arity, [4 templates as bytes])]
       terminals: [(key, name or None, [4 specs])] spec = ('lit', bytes) | ('to_string_double', src) | ..."""
    check_function_default(ast_dump("templates_tu.cc", "vita::function::display"))
    check_terminal_default(ast_dump("templates_tu.cc", "vita::terminal::display"))
    functions, terminals = [], []
    for nsname in NAMESPACES:
        docs = ast_dump("templates_tu.cc", "vita::" + nsname)
        nss = [d for d in docs if d.get("kind") == "NamespaceDecl" and d.get("name") == nsname]
        if not nss:
            raise Refuse("namespace vita::%s not found" % nsname)
        for ns in nss:
            for cls in kids(ns):
                if cls.get("kind") != "CXXRecordDecl" or not cls.get("completeDefinition"):
                    continue
                bs = bases(cls)
                isf = any(b.endswith("function") for b in bs)
                ist = any(b.endswith("terminal") for b in bs)
                if not (isf or ist):
                    if any(m.get("kind") == "CXXMethodDecl" and m.get("name") == "display" for m in kids(cls)):
                        raise Refuse("class %s::%s has a display() but an unknown base %r" % (nsname, cls.get("name"), bs))
                    continue
                key = nsname + "::" + cls.get("name")
                name, arity = ctor_info(cls)
                if name is None:
                    raise Refuse("symbol name of %s not found in its constructor" % key)
                disp = [m for m in kids(cls) if m.get("kind") == "CXXMethodDecl" and m.get("name") == "display"]
                if len(disp) > 1:
                    raise Refuse("%s has several display overloads" % key)
                if isf:
                    if arity is None or not (1 <= arity <= 9):
                        raise Refuse("arity of %s not found / not in 1..9" % key)
                    if disp:
                        specs = display_body(disp[0], 1)
                    else:
                        specs = {i: [("base_default",)] for i in range(4)}
                    tpls = []
                    for i in range(4):
                        sp = specs[i]
                        if all(x[0] == "lit" for x in sp):
                            tpls.append(b"".join(x[1] for x in sp))
                        elif sp == [("base_default",)]:
                            tpls.append(default_template(name, arity))
                        else:
                            raise Refuse("%s: function display returns %r" % (key, sp))
                    functions.append((key, name, arity, tpls))
                else:
                    if disp:
                        specs = display_body(disp[0], 2)
                    else:
                        specs = {i: [("term_default",)] for i in range(4)}
                    terminals.append((key, name, [specs[i] for i in range(4)]))
    # constants and variables (class templates / classes directly in vita::)
    for filt, key in (("vita::constant", "constant"), ("vita::variable", "variable")):
        docs = ast_dump("templates_tu.cc", filt)
        recs = find_all({"inner": docs}, lambda x: x.get("kind") in ("CXXRecordDecl", "ClassTemplateSpecializationDecl")
                        and x.get("completeDefinition") and x.get("name") == key)
        seen = set()
        for cls in recs:
            disp = [m for m in kids(cls) if m.get("kind") == "CXXMethodDecl" and m.get("name") == "display"
                    and any(k.get("kind") == "CompoundStmt" for k in kids(m))]
            if not disp:
                continue
            targ = ""
            if cls.get("kind") == "ClassTemplateSpecializationDecl":
                tas = [k for k in cls.get("inner", []) if k.get("kind") == "TemplateArgument"]
                targ = tas[0].get("type", {}).get("qualType", "") if tas else ""
            elif key == "constant":
                continue          # the primary template pattern: dependent, read the instantiations
            specs = display_body(disp[0], 2)
            if "basic_string" in targ:
                targ = "std::string"
            k2 = key + ("<" + targ + ">" if targ else "")
            if k2 in seen:
                continue
            seen.add(k2)
            terminals.append((k2, None, [specs[i] for i in range(4)]))
        if key == "constant" and not {"constant<double>", "constant<int>"} <= seen:
            raise Refuse("constant<double>/constant<int> instantiations not found: %r" % seen)
        if key == "constant" and "constant<std::string>" not in seen:
            raise Refuse("constant<std::string> specialisation not found: %r" % seen)
        if key == "variable" and "variable" not in seen:
            raise Refuse("variable::display not found")
    if not functions:
        raise Refuse("no function found")
    return functions, terminals


def lean_bytes(b):
    return "[" + ", ".join(str(x) for x in b) + "]"


def lean_str(s):
    return '"' + s.replace("\\", "\\\\").replace('"', '\\"') + '"'


def spec_lean(sp):
    if sp[0] == "lit":
        return "(.lit " + lean_bytes(sp[1]) + ")"
    if sp[0] == "to_string_double":
        return ".toStrD"
    if sp[0] == "to_string_int":
        return ".toStrI"
    if sp[0] == "name":
        return ".name"
    if sp[0] == "quote_val":
        return ".quote"
    raise Refuse("terminal display form %r not handled" % (sp,))


def render(functions, terminals):
    o = []
    o.append("/- GENERATED by tools/translate_templates.py from the clang AST of the display() methods")
    o.append("   of /repo's working tree (real.h, int.h, bool.h, string.h, constant.h, variable.h,")
    o.append("   function.cc, terminal.cc).  Do not edit: every run of the check regenerates it. -/")
    o.append("import Vita.C19.Render")
    o.append("namespace Vita.C19.Gen")
    o.append("open Vita.C19")
    o.append("")
    o.append("def functions : List FnSym := [")
    rows = []
    for key, name, arity, tpls in functions:
        r = "  { key := %s, name := %s, arity := %d,\n" % (lean_str(key), lean_bytes(name), arity)
        for i, t in enumerate(tpls):
            r += "    -- %s: %s\n" % (FORMATS[i][:-7], t.decode("latin1"))
        r += "    tpl := [" + ",\n            ".join(lean_bytes(t) for t in tpls) + "] }"
        rows.append(r)
    o.append(",\n".join(rows))
    o.append("]")
    o.append("")
    o.append("def terminals : List TmSym := [")
    rows = []
    for key, name, specs in terminals:
        rows.append("  { key := %s, name := %s,\n    disp := [%s] }" %
                    (lean_str(key), lean_bytes(name or b""), ", ".join("[" + ", ".join(spec_lean(x) for x in s) + "]" for s in specs)))
    o.append(",\n".join(rows))
    o.append("]")
    o.append("")
    o.append("end Vita.C19.Gen")
    return "\n".join(o) + "\n"


def emit(path):
    fs, ts = translate()
    txt = render(fs, ts)
    old = open(path).read() if os.path.exists(path) else None
    if old != txt:
        with open(path, "w") as f:
            f.write(txt)
    return fs, ts, old is not None and old != txt


if __name__ == "__main__":
    fs, ts = translate()
    sys.stdout.write(render(fs, ts))
