#!/usr/bin/env python3
"""C19 translator: extract, from the clang AST of /repo's *current* working tree, what every
shipped symbol prints in each of the four export formats

  * every `display(format)` override of a function class  -> its string templates
  * `function::display` (the default `NAME(%%1%%,...)`)       -> checked shape, expanded per class
  * every `display(param, format)` override of a terminal   -> literal / to_string form
  * `terminal::display` (default)                           -> checked shape

and write them as a table into lean/Vita/C19/GenTemplates.lean (syntax only: byte strings).
Refuses (raises `Refuse`) on any statement / expression shape it does not know.
"""
import os
import sys

sys.path.insert(0, os.path.dirname(os.path.abspath(__file__)))
from cxx2lean import Refuse, ast_dump, kids, qtype, peel, callee_name, find_all  # noqa: E402

FORMATS = ["c_format", "cpp_format", "mql_format", "python_format"]
NAMESPACES = ["real", "integer", "boolean", "str"]


def c_unescape(lit):
    """value of a clang StringLiteral `"..."` (possibly `"a" "b"` is already merged)."""
    if len(lit) < 2 or lit[0] != '"' or lit[-1] != '"':
        raise Refuse("unexpected string literal spelling %r" % lit)
    s, out, i = lit[1:-1], [], 0
    simple = {"n": 10, "t": 9, "\\": 92, '"': 34, "'": 39, "0": 0, "r": 13, "?": 63}
    while i < len(s):
        ch = s[i]
        if ch == "\\":
            i += 1
            if i >= len(s):
                raise Refuse("dangling backslash in %r" % lit)
            e = s[i]
            if e in simple:
                out.append(simple[e])
            elif e == "x":
                j = i + 1
                while j < len(s) and s[j] in "0123456789abcdefABCDEF":
                    j += 1
                out.append(int(s[i + 1:j], 16) & 255)
                i = j - 1
            else:
                raise Refuse("escape \\%s not handled in %r" % (e, lit))
        else:
            out += list(ch.encode("utf-8"))
        i += 1
    return bytes(out)


def string_literal(n):
    """bytes of an expression that is just a string literal converted to std::string."""
    n = peel(n)
    while n.get("kind") in ("ImplicitCastExpr",) and len(kids(n)) == 1:
        n = peel(kids(n)[0])
    if n.get("kind") == "CXXConstructExpr":
        ks = [k for k in kids(n) if k.get("kind") != "CXXDefaultArgExpr"]
        if len(ks) == 1:
            return string_literal(ks[0])
    if n.get("kind") == "StringLiteral":
        return c_unescape(n.get("value", ""))
    return None


def ret_expr(n):
    """the expression of a `return` in a display method as a list of parts (string concatenation)."""
    lit = string_literal(n)
    if lit is not None:
        return [("lit", lit)]
    e = peel(n)
    k = e.get("kind")
    if k == "CXXOperatorCallExpr" and callee_name(e) == "operator+" and len(kids(e)) == 3:
        return ret_expr(kids(e)[1]) + ret_expr(kids(e)[2])
    return [ret_atom(e)]


def ret_atom(e):
    k = e.get("kind")
    if k == "CallExpr" and callee_name(e) == "to_string":
        arg = kids(e)[1]
        ty = qtype(peel(kids(e)[0])) if False else qtype(kids(e)[0])
        a = arg
        casts = []
        while a.get("kind") in ("ImplicitCastExpr", "CXXStaticCastExpr", "ParenExpr", "CXXFunctionalCastExpr") \
                and len(kids(a)) == 1:
            if a.get("castKind") not in (None, "NoOp", "LValueToRValue"):
                casts.append(a.get("castKind"))
            a = kids(a)[0]
        if a.get("kind") == "DeclRefExpr" and a.get("referencedDecl", {}).get("kind") == "ParmVarDecl":
            src = "param"
        elif a.get("kind") == "MemberExpr" and a.get("name") == "val_":
            src = "val"
        else:
            raise Refuse("to_string of an unknown operand (%s)" % a.get("kind"))
        argty = qtype(arg)
        if casts == [] and argty in ("double", "const double", "vita::terminal_param_t"):
            return ("to_string_double", src)
        if casts == ["FloatingToIntegral"] and argty == "int":
            return ("to_string_int", src)
        if casts == [] and argty in ("int", "const int"):
            return ("to_string_int", src)
        raise Refuse("to_string: unhandled operand type %r casts %r" % (argty, casts))
    if k == "CXXMemberCallExpr" and callee_name(e) == "name" and len(kids(e)) == 1:
        return ("name",)
    if k == "CXXMemberCallExpr" and callee_name(e) == "display":
        # `function::display()` : the default of the base class
        return ("base_default",)
    if k == "CallExpr" and callee_name(e) == "quote_str":
        a = peel(kids(e)[1])
        if a.get("kind") == "MemberExpr" and a.get("name") == "val_":
            return ("quote_val",)
    raise Refuse("return expression of kind %s not understood" % k)


def flatten_switch(body):
    """sequence of ('case', value) / ('default',) / ('stmt', node) of a switch body."""
    seq = []

    def walk(n):
        k = n.get("kind")
        if k == "CaseStmt":
            ks = kids(n)
            v = ks[0]
            if v.get("kind") != "ConstantExpr" or "value" not in v:
                raise Refuse("case label is not a constant")
            names = find_all(v, lambda x: x.get("kind") == "DeclRefExpr")
            nm = names[0].get("referencedDecl", {}).get("name") if names else None
            seq.append(("case", int(v["value"]), nm))
            walk(ks[-1])
        elif k == "DefaultStmt":
            seq.append(("default",))
            walk(kids(n)[-1])
        else:
            seq.append(("stmt", n))

    if body.get("kind") != "CompoundStmt":
        raise Refuse("switch body is not a compound statement")
    for s in kids(body):
        walk(s)
    return seq


def display_body(m, nparams):
    """{format index: spec} for a display method declaration with a body."""
    params = [c for c in kids(m) if c.get("kind") == "ParmVarDecl"]
    if len(params) != nparams:
        raise Refuse("display with %d parameters" % len(params))
    body = [c for c in kids(m) if c.get("kind") == "CompoundStmt"]
    if len(body) != 1:
        raise Refuse("display without a body")
    st = kids(body[0])
    if len(st) == 1 and st[0].get("kind") == "ReturnStmt":
        spec = ret_expr(kids(st[0])[0])
        return {i: spec for i in range(4)}
    if len(st) == 1 and st[0].get("kind") == "SwitchStmt":
        ks = kids(st[0])
        cond = peel(ks[0])
        while cond.get("kind") == "ImplicitCastExpr":
            cond = peel(kids(cond)[0])
        if cond.get("kind") != "DeclRefExpr" or "format" not in qtype(cond):
            raise Refuse("switch on something that is not the format parameter")
        seq = flatten_switch(ks[-1])
        for it in seq:
            if it[0] == "case" and it[2] in FORMATS and FORMATS.index(it[2]) != it[1]:
                raise Refuse("enumerator %s has value %d" % (it[2], it[1]))
        out = {}
        for f in range(4):
            pos = None
            for i, it in enumerate(seq):
                if it[0] == "case" and it[1] == f:
                    pos = i
            if pos is None:
                for i, it in enumerate(seq):
                    if it[0] == "default":
                        pos = i
            if pos is None:
                raise Refuse("format %d falls out of the switch" % f)
            j = pos
            while j < len(seq) and seq[j][0] != "stmt":
                j += 1
            if j >= len(seq) or seq[j][1].get("kind") != "ReturnStmt":
                raise Refuse("label for format %d is not followed by a return" % f)
            out[f] = ret_expr(kids(seq[j][1])[0])
        return out
    raise Refuse("display body is neither `return e;` nor one switch")


def ctor_info(cls):
    """(name bytes or None, arity or None) from the user-written constructor(s)."""
    name, arity = None, None
    for m in kids(cls):
        if m.get("kind") != "CXXConstructorDecl" or m.get("isImplicit"):
            continue
        for ini in kids(m):
            if ini.get("kind") != "CXXCtorInitializer":
                continue
            ce = find_all(ini, lambda x: x.get("kind") == "CXXConstructExpr" and
                          qtype(x) in ("vita::function", "vita::terminal"))
            if not ce:
                continue
            args = [a for a in kids(ce[0]) if a.get("kind") != "CXXDefaultArgExpr"]
            lit = string_literal(args[0]) if args else None
            if lit is not None:
                name = lit
            if qtype(ce[0]) == "vita::function" and len(args) >= 3:
                il = find_all(args[2], lambda x: x.get("kind") == "InitListExpr")
                if il:
                    arity = len(kids(il[0]))
            if qtype(ce[0]) == "vita::function" and len(args) == 2:
                raise Refuse("function(name, n_args) constructor form not handled")
    return name, arity


def bases(cls):
    return [b.get("type", {}).get("qualType", "") for b in cls.get("bases", [])]


def check_function_default(docs):
    """`function::display`: must build  name() + "(" + "%%1%%" {+ ",%%" + to_string(i+1) + "%%"} + ")"."""
    ms = [d for d in docs if d.get("kind") == "CXXMethodDecl" and d.get("name") == "display"
          and any(k.get("kind") == "CompoundStmt" for k in kids(d))]
    if len(ms) != 1:
        raise Refuse("function::display definition not found (%d)" % len(ms))
    lits = [c_unescape(x.get("value")) for x in find_all(ms[0], lambda x: x.get("kind") == "StringLiteral")]
    if lits != [b"%%1%%", b",%%", b"%%", b"(", b")"]:
        raise Refuse("function::display no longer has the shape NAME(%%1%%,%%2%%,...): literals " + repr(lits))
    calls = {callee_name(x) for x in find_all(ms[0], lambda x: x.get("kind") in
                                              ("CallExpr", "CXXMemberCallExpr", "CXXOperatorCallExpr"))}
    if not {"name", "arity", "to_string"} <= calls:
        raise Refuse("function::display: expected calls to name(), arity(), to_string: " + repr(calls))
    loops = find_all(ms[0], lambda x: x.get("kind") == "ForStmt")
    if len(loops) != 1:
        raise Refuse("function::display: expected one for loop")
    ints = [x.get("value") for x in find_all(ms[0], lambda x: x.get("kind") == "IntegerLiteral")]
    if sorted(ints) != ["1", "1"]:
        raise Refuse("function::display: integer literals changed: " + repr(ints))


def check_terminal_default(docs):
    ms = [d for d in docs if d.get("kind") == "CXXMethodDecl" and d.get("name") == "display"
          and any(k.get("kind") == "CompoundStmt" for k in kids(d))]
    if len(ms) != 1:
        raise Refuse("terminal::display definition not found")
    lits = [c_unescape(x.get("value")) for x in find_all(ms[0], lambda x: x.get("kind") == "StringLiteral")]
    conds = find_all(ms[0], lambda x: x.get("kind") == "ConditionalOperator")
    if lits != [b"_"] or len(conds) != 1:
        raise Refuse("terminal::display no longer `parametric() ? name()+\"_\"+to_string(v) : name()`")


def default_template(name, arity):
    return name + b"(" + b",".join(b"%%" + str(i + 1).encode() + b"%%" for i in range(arity)) + b")"


def translate():
    """-> (functions, terminals)
       functions: [(key, name, arity, [4 templates as bytes])]
       terminals: [(key, name or None, [4 specs])] spec = ('lit', bytes) | ('to_string_double', src) | ..."""
    check_function_default(ast_dump("templates_tu.cc", "vita::function::display"))
    check_terminal_default(ast_dump("templates_tu.cc", "vita::terminal::display"))
    functions, terminals = [], []
    for nsname in NAMESPACES:
        docs = ast_dump("templates_tu.cc", "vita::" + nsname)
        nss = [d for d in docs if d.get("kind") == "NamespaceDecl" and d.get("name") == nsname]
        if not nss:
            raise Refuse("namespace vita::%s not found" % nsname)
        for ns in nss:
            for cls in kids(ns):
                if cls.get("kind") != "CXXRecordDecl" or not cls.get("completeDefinition"):
                    continue
                bs = bases(cls)
                isf = any(b.endswith("function") for b in bs)
                ist = any(b.endswith("terminal") for b in bs)
                if not (isf or ist):
                    if any(m.get("kind") == "CXXMethodDecl" and m.get("name") == "display" for m in kids(cls)):
                        raise Refuse("class %s::%s has a display() but an unknown base %r" % (nsname, cls.get("name"), bs))
                    continue
                key = nsname + "::" + cls.get("name")
                name, arity = ctor_info(cls)
                if name is None:
                    raise Refuse("symbol name of %s not found in its constructor" % key)
                disp = [m for m in kids(cls) if m.get("kind") == "CXXMethodDecl" and m.get("name") == "display"]
                if len(disp) > 1:
                    raise Refuse("%s has several display overloads" % key)
                if isf:
                    if arity is None or not (1 <= arity <= 9):
                        raise Refuse("arity of %s not found / not in 1..9" % key)
                    if disp:
                        specs = display_body(disp[0], 1)
                    else:
                        specs = {i: [("base_default",)] for i in range(4)}
                    tpls = []
                    for i in range(4):
                        sp = specs[i]
                        if all(x[0] == "lit" for x in sp):
                            tpls.append(b"".join(x[1] for x in sp))
                        elif sp == [("base_default",)]:
                            tpls.append(default_template(name, arity))
                        else:
                            raise Refuse("%s: function display returns %r" % (key, sp))
                    functions.append((key, name, arity, tpls))
                else:
                    if disp:
                        specs = display_body(disp[0], 2)
                    else:
                        specs = {i: [("term_default",)] for i in range(4)}
                    terminals.append((key, name, [specs[i] for i in range(4)]))
    # constants and variables (class templates / classes directly in vita::)
    for filt, key in (("vita::constant", "constant"), ("vita::variable", "variable")):
        docs = ast_dump("templates_tu.cc", filt)
        recs = find_all({"inner": docs}, lambda x: x.get("kind") in ("CXXRecordDecl", "ClassTemplateSpecializationDecl")
                        and x.get("completeDefinition") and x.get("name") == key)
        seen = set()
        for cls in recs:
            disp = [m for m in kids(cls) if m.get("kind") == "CXXMethodDecl" and m.get("name") == "display"
                    and any(k.get("kind") == "CompoundStmt" for k in kids(m))]
            if not disp:
                continue
            targ = ""
            if cls.get("kind") == "ClassTemplateSpecializationDecl":
                tas = [k for k in cls.get("inner", []) if k.get("kind") == "TemplateArgument"]
                targ = tas[0].get("type", {}).get("qualType", "") if tas else ""
            elif key == "constant":
                continue          # the primary template pattern: dependent, read the instantiations
            specs = display_body(disp[0], 2)
            if "basic_string" in targ:
                targ = "std::string"
            k2 = key + ("<" + targ + ">" if targ else "")
            if k2 in seen:
                continue
            seen.add(k2)
            terminals.append((k2, None, [specs[i] for i in range(4)]))
        if key == "constant" and not {"constant<double>", "constant<int>"} <= seen:
            raise Refuse("constant<double>/constant<int> instantiations not found: %r" % seen)
        if key == "constant" and "constant<std::string>" not in seen:
            raise Refuse("constant<std::string> specialisation not found: %r" % seen)
        if key == "variable" and "variable" not in seen:
            raise Refuse("variable::display not found")
    if not functions:
        raise Refuse("no function found")
    return functions, terminals


def lean_bytes(b):
    return "[" + ", ".join(str(x) for x in b) + "]"


def lean_str(s):
    return '"' + s.replace("\\", "\\\\").replace('"', '\\"') + '"'


def spec_lean(sp):
    if sp[0] == "lit":
        return "(.lit " + lean_bytes(sp[1]) + ")"
    if sp[0] == "to_string_double":
        return ".toStrD"
    if sp[0] == "to_string_int":
        return ".toStrI"
    if sp[0] == "name":
        return ".name"
    if sp[0] == "quote_val":
        return ".quote"
    raise Refuse("terminal display form %r not handled" % (sp,))


def render(functions, terminals):
    o = []
    o.append("/- GENERATED by tools/translate_templates.py from the clang AST of the display() methods")
    o.append("   of /repo's working tree (real.h, int.h, bool.h, string.h, constant.h, variable.h,")
    o.append("   function.cc, terminal.cc).  Do not edit: every run of the check regenerates it. -/")
    o.append("import Vita.C19.Render")
    o.append("namespace Vita.C19.Gen")
    o.append("open Vita.C19")
    o.append("")
    o.append("def functions : List FnSym := [")
    rows = []
    for key, name, arity, tpls in functions:
        r = "  { key := %s, name := %s, arity := %d,\n" % (lean_str(key), lean_bytes(name), arity)
        for i, t in enumerate(tpls):
            r += "    -- %s: %s\n" % (FORMATS[i][:-7], t.decode("latin1"))
        r += "    tpl := [" + ",\n            ".join(lean_bytes(t) for t in tpls) + "] }"
        rows.append(r)
    o.append(",\n".join(rows))
    o.append("]")
    o.append("")
    o.append("def terminals : List TmSym := [")
    rows = []
    for key, name, specs in terminals:
        rows.append("  { key := %s, name := %s,\n    disp := [%s] }" %
                    (lean_str(key), lean_bytes(name or b""), ", ".join("[" + ", ".join(spec_lean(x) for x in s) + "]" for s in specs)))
    o.append(",\n".join(rows))
    o.append("]")
    o.append("")
    o.append("end Vita.C19.Gen")
    return "\n".join(o) + "\n"


# ---------------------------------------------------------------------------------------------
# the print-format machinery: out::print_format_t, the manipulators, operator<< of i_mep / team
# ---------------------------------------------------------------------------------------------

def _enum(docs, name):
    es = [d for d in docs if d.get("kind") == "EnumDecl" and d.get("name") == name]
    if not es:
        raise Refuse("enum %s not found" % name)
    out, nxt = [], 0
    for c in kids(es[0]):
        if c.get("kind") != "EnumConstantDecl":
            continue
        ce = find_all(c, lambda x: x.get("kind") == "ConstantExpr" and "value" in x)
        inner = [k for k in kids(c) if not k.get("kind", "").endswith("Comment")]
        if inner and not ce:
            raise Refuse("enumerator %s has an initialiser that is not a constant expression" % c.get("name"))
        v = int(ce[0]["value"]) if ce else nxt
        out.append((c.get("name"), v))
        nxt = v + 1
    return out


def _fn_with_body(docs, name, pred=lambda d: True):
    fs = [d for d in docs if d.get("kind") == "FunctionDecl" and d.get("name") == name and pred(d)
          and any(k.get("kind") == "CompoundStmt" for k in kids(d))]
    if len(fs) != 1:
        raise Refuse("definition of %s not found (%d candidates)" % (name, len(fs)))
    return fs[0]


def _body(fn):
    return [k for k in kids([k for k in kids(fn) if k.get("kind") == "CompoundStmt"][0])
            if not k.get("kind", "").endswith("Comment")]


def _strip_casts(n):
    while n.get("kind") in ("ImplicitCastExpr", "ParenExpr", "CXXStaticCastExpr", "CXXFunctionalCastExpr",
                            "ConstantExpr") and len(kids(n)) == 1:
        n = kids(n)[0]
    return n


def _iword_slot(call):
    """`o.iword(<index variable>)` -> name of the index variable"""
    if call.get("kind") != "CXXMemberCallExpr" or callee_name(call) != "iword" or len(kids(call)) != 2:
        raise Refuse("expected o.iword(index)")
    a = _strip_casts(kids(call)[1])
    if a.get("kind") != "DeclRefExpr":
        raise Refuse("iword index is not a variable")
    return a["referencedDecl"]["name"]


def _manipulator(fn, enum):
    """`o.iword(slot) = <enumerator | bool | pf.t_>; return o;` -> (slot, value or 'arg')"""
    st = _body(fn)
    if len(st) != 2 or st[0].get("kind") != "BinaryOperator" or st[0].get("opcode") != "=" \
            or st[1].get("kind") != "ReturnStmt":
        raise Refuse("manipulator %s is not `o.iword(i) = v; return o;`" % fn.get("name"))
    r = _strip_casts(kids(st[1])[0])
    if r.get("kind") != "DeclRefExpr" or r["referencedDecl"].get("kind") != "ParmVarDecl":
        raise Refuse("manipulator %s does not return its stream" % fn.get("name"))
    lhs, rhs = kids(st[0])
    slot = _iword_slot(_strip_casts(lhs))
    rhs = _strip_casts(rhs)
    if rhs.get("kind") == "DeclRefExpr" and rhs["referencedDecl"].get("kind") == "EnumConstantDecl":
        return slot, dict(enum)[rhs["referencedDecl"]["name"]]
    if rhs.get("kind") == "CXXBoolLiteralExpr":
        return slot, 1 if rhs.get("value") in (True, "true", "True") else 0
    if rhs.get("kind") == "MemberExpr" and rhs.get("name") == "t_":
        return slot, "arg"
    raise Refuse("manipulator %s stores something unknown (%s)" % (fn.get("name"), rhs.get("kind")))


MANIPULATORS = ["c_language", "cpp_language", "mql_language", "python_language", "dump", "graphviz", "in_line",
                "list", "tree", "long_form", "short_form"]


def translate_export():
    """the data flow  manipulator -> stream iword -> operator<< -> language(format)"""
    docs = ast_dump("export_tu.cc", "vita::out::")
    pft = _enum(docs, "print_format_t")
    sf = _enum(ast_dump("export_tu.cc", "vita::symbol::format"), "format")
    for i, nm in enumerate(FORMATS):
        if dict(sf).get(nm) != i:
            raise Refuse("symbol::format::%s is not %d" % (nm, i))
    manips = []
    for m in MANIPULATORS:
        slot, v = _manipulator(_fn_with_body(docs, m), pft)
        manips.append((m, slot, v))
    ps = lambda d: [qtype(k) for k in kids(d) if k.get("kind") == "ParmVarDecl"]
    slot, v = _manipulator(_fn_with_body(docs, "operator<<", lambda d: any("print_format" in x for x in ps(d))), pft)
    if v != "arg":
        raise Refuse("operator<<(ostream&, print_format) does not store its argument")
    manips.append(("print_format", slot, "arg"))
    # the two readers
    readers = {}
    for nm in ("print_format_flag", "long_form_flag"):
        st = _body(_fn_with_body(docs, nm))
        if len(st) != 1 or st[0].get("kind") != "ReturnStmt":
            raise Refuse("%s is not a single return" % nm)
        readers[nm] = _iword_slot(_strip_casts(kids(st[0])[0]))
    # operator<<(ostream&, const i_mep&)
    odocs = ast_dump("export_tu.cc", "vita::operator<<")
    op = _fn_with_body(odocs, "operator<<", lambda d: any("i_mep" in x for x in ps(d)))
    st = _body(op)
    if len(st) != 2 or st[0].get("kind") != "DeclStmt" or st[1].get("kind") != "SwitchStmt":
        raise Refuse("operator<<(ostream&, i_mep) is not `format = print_format_flag(s); switch (format)`")
    init = find_all(st[0], lambda x: x.get("kind") == "CallExpr")
    if len(init) != 1 or callee_name(init[0]) != "print_format_flag":
        raise Refuse("operator<<(ostream&, i_mep): format is not print_format_flag(s)")
    fvar = [x for x in find_all(st[0], lambda x: x.get("kind") == "VarDecl")][0].get("name")
    sw = kids(st[1])
    cond = _strip_casts(sw[0])
    if cond.get("kind") != "DeclRefExpr" or cond["referencedDecl"].get("name") != fvar:
        raise Refuse("operator<<(ostream&, i_mep) switches on something else than the format flag")
    seq = flatten_switch(sw[-1])
    cases, default = [], None
    i = 0
    while i < len(seq):
        it = seq[i]
        if it[0] == "stmt":
            raise Refuse("operator<<(ostream&, i_mep): statement outside a label")
        labels = []
        while i < len(seq) and seq[i][0] != "stmt":
            labels.append(seq[i])
            i += 1
        call = None
        while i < len(seq) and seq[i][0] == "stmt":
            n = seq[i][1]
            i += 1
            cs = [n] if n.get("kind") == "CallExpr" else \
                ([_strip_casts(kids(n)[0])] if n.get("kind") == "ReturnStmt" and kids(n) else [])
            if cs and cs[0].get("kind") == "CallExpr" and call is None:
                call = cs[0]
            if n.get("kind") == "ReturnStmt":
                break
        else:
            raise Refuse("operator<<(ostream&, i_mep): a branch falls through")
        if call is None:
            raise Refuse("operator<<(ostream&, i_mep): a branch prints nothing")
        for lb in labels:
            if lb[0] == "case":
                cases.append((lb[1], callee_name(call)))
            else:
                if callee_name(call) != "language" or len(kids(call)) != 4:
                    raise Refuse("default branch of operator<<(ostream&, i_mep) is not language(s, f, ind)")
                a = _strip_casts(kids(call)[2])
                if a.get("kind") != "BinaryOperator" or a.get("opcode") != "-":
                    raise Refuse("default branch: the symbol format is not `format - language_f`")
                l, r = [_strip_casts(x) for x in kids(a)]
                if l.get("kind") != "DeclRefExpr" or l["referencedDecl"].get("name") != fvar or \
                        r.get("kind") != "DeclRefExpr" or r["referencedDecl"].get("kind") != "EnumConstantDecl":
                    raise Refuse("default branch: the symbol format is not `format - <enumerator>`")
                default = dict(pft)[r["referencedDecl"]["name"]]
    if default is None:
        raise Refuse("operator<<(ostream&, i_mep) has no default branch")
    # operator<<(ostream&, const team<T>&)
    tds = [k for d in odocs if d.get("kind") == "FunctionTemplateDecl" for k in kids(d)
           if k.get("kind") == "FunctionDecl" and any("team<" in x for x in ps(k))
           and any(c.get("kind") == "CompoundStmt" for c in kids(k))]
    if len(tds) != 1:
        raise Refuse("operator<<(ostream&, team<T>) not found")
    st = _body(tds[0])
    if len(st) != 3 or st[0].get("kind") != "DeclStmt" or st[1].get("kind") != "CXXForRangeStmt" or \
            st[2].get("kind") != "ReturnStmt":
        raise Refuse("operator<<(ostream&, team<T>) is not `format = ...; for (i : t) {...} return s;`")
    init = find_all(st[0], lambda x: x.get("kind") == "CallExpr")
    if len(init) != 1 or callee_name(init[0]) != "print_format_flag":
        raise Refuse("operator<<(ostream&, team): format is not print_format_flag(s)")
    tfvar = find_all(st[0], lambda x: x.get("kind") == "VarDecl")[0].get("name")
    fr = kids(st[1])
    rng_init = find_all(fr[0], lambda x: x.get("kind") == "DeclRefExpr")
    if not rng_init or rng_init[0]["referencedDecl"].get("kind") != "ParmVarDecl":
        raise Refuse("operator<<(ostream&, team): the loop does not range over the team")
    loopvar = [x for x in find_all(st[1], lambda x: x.get("kind") == "VarDecl") if not x.get("name", "").startswith("__")]
    if len(loopvar) != 1:
        raise Refuse("operator<<(ostream&, team): loop variable not found")
    loopvar = loopvar[0].get("name")

    def tstmt(n):
        k = n.get("kind")
        if k == "CompoundStmt":
            return [x for c in kids(n) for x in tstmt(c)]
        if k == "CXXOperatorCallExpr":
            ks = kids(n)
            if len(ks) != 3:
                raise Refuse("team: unexpected operator call")
            nm = callee_name(n) or (ks[0].get("name") if ks[0].get("kind") == "UnresolvedLookupExpr" else None)
            if nm != "operator<<":
                raise Refuse("team: operator %r" % nm)
            a, b = _strip_casts(ks[1]), _strip_casts(ks[2])
            if a.get("kind") != "DeclRefExpr" or a["referencedDecl"].get("kind") != "ParmVarDecl":
                raise Refuse("team: output does not go to the stream parameter")
            if b.get("kind") == "CharacterLiteral":
                return [("put", int(b["value"]))]
            if b.get("kind") == "DeclRefExpr" and b["referencedDecl"].get("name") == loopvar:
                return [("member",)]
            raise Refuse("team: prints something unknown (%s)" % b.get("kind"))
        if k == "IfStmt":
            ks = kids(n)
            c = ks[0]
            if c.get("kind") != "BinaryOperator" or c.get("opcode") != "==":
                raise Refuse("team: condition is not ==")
            l, r = [_strip_casts(x) for x in kids(c)]
            if l.get("kind") != "DeclRefExpr" or l["referencedDecl"].get("name") != tfvar or \
                    r.get("kind") != "DeclRefExpr" or r["referencedDecl"].get("kind") != "EnumConstantDecl":
                raise Refuse("team: condition is not `format == <enumerator>`")
            return [("if", dict(pft)[r["referencedDecl"]["name"]], tstmt(ks[1]), tstmt(ks[2]) if len(ks) > 2 else [])]
        raise Refuse("team: statement %s not understood" % k)

    team = tstmt(fr[-1])
    return {"print_format_t": pft, "symbol_format": sf, "manipulators": manips, "readers": readers,
            "cases": cases, "default_base": default, "team": team}


def _team_lean(st):
    def prims(ps):
        out = []
        for x in ps:
            if x[0] == "put":
                out.append(".put %d" % x[1])
            elif x[0] == "member":
                out.append(".member")
            else:
                raise Refuse("team: nested conditions are not handled")
        return "[" + ", ".join(out) + "]"
    out = []
    for x in st:
        if x[0] == "if":
            out.append(".ifFmt %d %s %s" % (x[1], prims(x[2]), prims(x[3])))
        else:
            out.append(".prim " + prims([x])[1:-1])
    return "[" + ", ".join(out) + "]"


def render_export(x):
    o = []
    o.append("/- GENERATED by tools/translate_templates.py from the clang AST of /repo's working tree")
    o.append("   (environment.h / symbol.h enums, individual.cc manipulators, i_mep.cc and team.tcc operator<<).")
    o.append("   Do not edit: every run of the check regenerates it. -/")
    o.append("import Vita.C19.Stream")
    o.append("namespace Vita.C19.Gen")
    o.append("open Vita.C19")
    o.append("")
    o.append("/-- enum out::print_format_t -/")
    o.append("def printFormatT : List (String × Nat) := [" + ", ".join('(%s, %d)' % (lean_str(n), v) for n, v in x["print_format_t"]) + "]")
    o.append("/-- enum symbol::format -/")
    o.append("def symbolFormat : List (String × Nat) := [" + ", ".join('(%s, %d)' % (lean_str(n), v) for n, v in x["symbol_format"]) + "]")
    o.append("/-- manipulator -> (iword slot written, value stored; none = the manipulator's argument) -/")
    o.append("def manipulators : List (String × String × Option Nat) := [" + ",\n  ".join(
        '(%s, %s, %s)' % (lean_str(n), lean_str(sl), "none" if v == "arg" else "some %d" % v) for n, sl, v in x["manipulators"]) + "]")
    o.append("/-- the iword slot read by print_format_flag / long_form_flag -/")
    o.append("def formatSlot : String := " + lean_str(x["readers"]["print_format_flag"]))
    o.append("def longSlot : String := " + lean_str(x["readers"]["long_form_flag"]))
    o.append("/-- operator<<(ostream&, const i_mep&): case label -> function called -/")
    o.append("def dispatchCases : List (Nat × String) := [" + ", ".join('(%d, %s)' % (v, lean_str(c)) for v, c in x["cases"]) + "]")
    o.append("/-- its default branch: language(s, symbol::format(format - dispatchBase), ind) -/")
    o.append("def dispatchBase : Nat := %d" % x["default_base"])
    o.append("/-- operator<<(ostream&, const team<T>&): the statements executed for every member -/")
    o.append("def teamBody : List TeamStmt := " + _team_lean(x["team"]))
    o.append("")
    o.append("end Vita.C19.Gen")
    return "\n".join(o) + "\n"


# ---------------------------------------------------------------------------------------------
# vita::replace_all (utility.cc): the body as a term of the statement language of Vita/C19/Replace.lean
# ---------------------------------------------------------------------------------------------

_STR_TYPES = ("std::string", "const std::string &", "const std::string", "std::basic_string<char>",
              "const std::basic_string<char> &")


def translate_replace():
    """body of `std::string replace_all(std::string s, const std::string &from, const std::string &to)`
       -> Lean term (RStm).  Parameters are numbered by position, local std::size_t variables by order of
       declaration (so renaming is harmless); `size()` = `length()`; everything else that is not one of
       find / replace / length / empty / npos / = / += / + / != / == / ! / if / while / return is refused."""
    docs = ast_dump("replace_tu.cc", "vita::replace_all")
    fn = _fn_with_body(docs, "replace_all")
    params = [k for k in kids(fn) if k.get("kind") == "ParmVarDecl"]
    if len(params) != 3:
        raise Refuse("replace_all does not take three parameters")
    for i, pm in enumerate(params):
        t = pm.get("type", {}).get("qualType", "")
        if t not in _STR_TYPES or (i == 0) != (not t.startswith("const")):
            raise Refuse("replace_all: parameter %d has type %r (expected std::string by value, then two "
                         "const std::string &)" % (i, t))
    pidx = {pm["id"]: i for i, pm in enumerate(params)}
    lidx = {}
    used = {"calls": []}

    def strip(n):
        while True:
            n = peel(n)
            if n.get("kind") in ("ImplicitCastExpr", "CXXStaticCastExpr", "CXXFunctionalCastExpr") and \
                    len(kids(n)) == 1 and n.get("castKind") in ("IntegralCast", "NoOp", "LValueToRValue"):
                n = kids(n)[0]
            else:
                return n

    def sparam(n):
        n = strip(n)
        if n.get("kind") == "DeclRefExpr" and n["referencedDecl"].get("id") in pidx:
            return pidx[n["referencedDecl"]["id"]]
        raise Refuse("replace_all: expected one of the three string parameters, found %s" % n.get("kind"))

    def lvar(n):
        n = strip(n)
        if n.get("kind") == "DeclRefExpr" and n["referencedDecl"].get("id") in lidx:
            return lidx[n["referencedDecl"]["id"]]
        raise Refuse("replace_all: expected a local std::size_t variable, found %s" % n.get("kind"))

    def member_call(n):
        ks = kids(n)
        m = ks[0]
        if m.get("kind") != "MemberExpr":
            raise Refuse("replace_all: member call without MemberExpr")
        return m.get("name"), sparam(kids(m)[0]), ks[1:]

    def exp(n):
        n = strip(n)
        k = n.get("kind")
        if k == "IntegerLiteral":
            return "(.lit %d)" % int(n["value"])
        if k == "DeclRefExpr":
            rd = n["referencedDecl"]
            if rd.get("name") == "npos":
                return ".npos"
            if rd.get("id") in lidx:
                return "(.var %d)" % lidx[rd["id"]]
            raise Refuse("replace_all: reference to %r in an integer expression" % rd.get("name"))
        if k == "CXXMemberCallExpr":
            name, p, args = member_call(n)
            args = [a for a in args if a.get("kind") != "CXXDefaultArgExpr"]
            used["calls"].append(name)
            if name in ("length", "size") and not args:
                return "(.len %d)" % p
            if name == "empty" and not args:
                return "(.empty %d)" % p
            if name == "find" and len(args) in (1, 2):
                return "(.find %d %d %s)" % (p, sparam(args[0]), exp(args[1]) if len(args) == 2 else "(.lit 0)")
            raise Refuse("replace_all: call of std::string::%s with %d arguments in an expression" % (name, len(args)))
        if k == "UnaryOperator" and n.get("opcode") == "!":
            return "(.not %s)" % exp(kids(n)[0])
        if k == "BinaryOperator":
            op = n.get("opcode")
            a, b = kids(n)
            if op == "=":
                return "(.assign %d %s)" % (lvar(a), exp(b))
            if op in ("!=", "==", "+"):
                return "(.%s %s %s)" % ({"!=": "ne", "==": "eq", "+": "add"}[op], exp(a), exp(b))
            raise Refuse("replace_all: binary operator %s" % op)
        raise Refuse("replace_all: expression %s not understood" % k)

    def seq(xs):
        if not xs:
            return ".skip"
        if len(xs) == 1:
            return xs[0]
        return "(.seq %s %s)" % (xs[0], seq(xs[1:]))

    def stm(n):
        k = n.get("kind")
        if k == "CompoundStmt":
            return seq([stm(c) for c in kids(n) if not c.get("kind", "").endswith("Comment")])
        if k == "NullStmt":
            return ".skip"
        if k == "DeclStmt":
            out = []
            for v in kids(n):
                if v.get("kind") != "VarDecl" or v.get("type", {}).get("desugaredQualType",
                                                                      v.get("type", {}).get("qualType")) not in \
                        ("unsigned long", "std::size_t", "size_t") or not kids(v):
                    raise Refuse("replace_all: local declaration that is not an initialised std::size_t")
                lidx[v["id"]] = len(lidx)
                out.append("(.decl %d %s)" % (lidx[v["id"]], exp(kids(v)[0])))
            return seq(out)
        if k == "IfStmt":
            ks = kids(n)
            if len(ks) not in (2, 3) or n.get("hasInit") or n.get("hasVar"):
                raise Refuse("replace_all: if statement with an initialiser")
            return "(.ite %s %s %s)" % (exp(ks[0]), stm(ks[1]), stm(ks[2]) if len(ks) == 3 else ".skip")
        if k == "WhileStmt":
            ks = kids(n)
            if len(ks) != 2:
                raise Refuse("replace_all: while statement with a condition variable")
            return "(.while %s %s)" % (exp(ks[0]), stm(ks[1]))
        if k == "ReturnStmt":
            return "(.ret %d)" % sparam(kids(n)[0])
        if k == "CompoundAssignOperator" and n.get("opcode") == "+=":
            a, b = kids(n)
            return "(.addAssign %d %s)" % (lvar(a), exp(b))
        if k == "CXXMemberCallExpr":
            name, p, args = member_call(n)
            used["calls"].append(name)
            if name == "replace" and len(args) == 3:
                return "(.replace %d %s %s %d)" % (p, exp(args[0]), exp(args[1]), sparam(args[2]))
            raise Refuse("replace_all: statement calls std::string::%s with %d arguments" % (name, len(args)))
        if k in ("BinaryOperator", "UnaryOperator", "ParenExpr", "ImplicitCastExpr", "ExprWithCleanups"):
            return "(.expr %s)" % exp(n)
        raise Refuse("replace_all: statement %s not understood" % k)

    body = [k for k in kids(fn) if k.get("kind") == "CompoundStmt"][0]
    term = stm(body)
    return {"term": term, "calls": sorted(set(used["calls"])), "locals": len(lidx)}


def render_replace(x):
    o = ["/- GENERATED by tools/translate_templates.py from the clang AST of vita::replace_all",
         "   (src/utility/utility.cc).  Do not edit: regenerated (and re-proved equal to the hand-read loop,",
         "   Vita.C19.canonReplaceAll) on every run of checks/c19.py. -/",
         "import Vita.C19.Replace",
         "namespace Vita.C19.Gen",
         "open Vita.C19",
         "",
         "/-- parameters: 0 = s (by value), 1 = from, 2 = to; locals numbered in order of declaration -/",
         "def replaceAllBody : RStm :=",
         "  " + x["term"],
         "",
         "end Vita.C19.Gen"]
    return "\n".join(o) + "\n"


def emit_replace(path):
    x = translate_replace()
    txt = render_replace(x)
    old = open(path).read() if os.path.exists(path) else None
    if old != txt:
        with open(path, "w") as f:
            f.write(txt)
    return x, old is not None and old != txt


def emit_export(path):
    x = translate_export()
    txt = render_export(x)
    old = open(path).read() if os.path.exists(path) else None
    if old != txt:
        with open(path, "w") as f:
            f.write(txt)
    return x, old is not None and old != txt


def emit(path):
    fs, ts = translate()
    txt = render(fs, ts)
    old = open(path).read() if os.path.exists(path) else None
    if old != txt:
        with open(path, "w") as f:
            f.write(txt)
    return fs, ts, old is not None and old != txt


if __name__ == "__main__":
    if sys.argv[1:] == ["export"]:
        sys.stdout.write(render_export(translate_export()))
    elif sys.argv[1:] == ["replace"]:
        sys.stdout.write(render_replace(translate_replace()))
    else:
        fs, ts = translate()
        sys.stdout.write(render(fs, ts))
