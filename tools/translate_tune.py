"""C06: which `environment` parameters do `is_valid(true)` and the three `tune_parameters` touch?

Reads the clang AST of /repo's current working tree and writes lean/Vita/C06/Gen.lean with
  forcedFields   members tested inside `if (force_defined) { … }` of environment::is_valid
  checkedFields  members read by the remaining (range / cross-field) checks of is_valid
  statFields     … the `stat.*` members among them (file-name checks)
  tunedBase      members of `prob_.env` assigned by search<T,ES>::tune_parameters
  tunedSrc       … additionally by src_search<T,ES>::tune_parameters
  tunedGa        … additionally by basic_ga_search<T,ES,F>::tune_parameters
(sorted, so a re-ordering of statements changes nothing).  Vita/C06/Props.lean proves that these
are exactly the parameters the hand-written model Tune.lean knows: a parameter added to the code
but not to the model makes that theorem fail instead of going unnoticed.  The *values* (defaults,
conditions) are tied by the differential run, not here.
"""
import os

import cxx2lean as X
from cxx2lean import Refuse

TU = "tune_tu.cc"


def member_path(n):
    """`a.b.c` for a chain of MemberExpr / CXXDependentScopeMemberExpr; None for anything else."""
    n = X.peel(n)
    k = n.get("kind")
    if k == "MemberExpr":
        name = n.get("name")
    elif k == "CXXDependentScopeMemberExpr":
        name = n.get("member")
    elif k == "DeclRefExpr":
        return n.get("referencedDecl", {}).get("name")
    elif k == "CXXThisExpr":
        return "this"
    elif k in ("CXXMemberCallExpr", "CallExpr"):
        return (X.callee_name(n) or "?") + "()"
    else:
        return None
    ks = X.kids(n)
    base = member_path(ks[0]) if ks else "this"
    return (base + "." if base else "") + (name or "?")


def body_of(docs, what):
    for d in docs:
        for c in X.kids(d):
            if c.get("kind") == "CompoundStmt":
                return c
    raise Refuse("no definition of %s in the translation unit" % what)


def env_members(node, roots):
    """member paths below `node` that start at one of `roots` (e.g. 'this' for is_valid,
    'this.prob_.env' / 'env' for the tunings), with the root stripped"""
    out = set()
    for m in X.find_all(node, lambda x: x.get("kind") in ("MemberExpr", "CXXDependentScopeMemberExpr")):
        p = member_path(m)
        if not p:
            continue
        for r in roots:
            if p.startswith(r + "."):
                out.add(p[len(r) + 1:])
    # keep only the longest paths (a.b is a prefix of a.b.c)
    return {p for p in out if not any(q.startswith(p + ".") for q in out)}


FIELD_METHODS = ("has_value", "empty", "has_filename", "reset")


def strip_methods(paths):
    out = set()
    for p in paths:
        parts = [x for x in p.split(".") if x not in FIELD_METHODS and not x.startswith("operator")]
        if parts:
            out.add(".".join(parts))
    return out


def assigned(node, roots):
    """paths assigned (`=`, builtin or overloaded) below `node`"""
    out = set()
    for b in X.find_all(node, lambda x: (x.get("kind") == "BinaryOperator" and x.get("opcode") == "=") or
                        (x.get("kind") == "CXXOperatorCallExpr")):
        ks = X.kids(b)
        if b.get("kind") == "CXXOperatorCallExpr":
            if X.callee_name(b) != "operator=" or len(ks) < 3:
                continue
            lhs = ks[1]
        else:
            lhs = ks[0]
        p = member_path(lhs)
        if not p:
            continue
        for r in roots:
            if p.startswith(r + "."):
                out.add(p[len(r) + 1:])
    return out


def extract():
    res = {}
    # ---- environment::is_valid
    body = body_of(X.ast_dump(TU, "vita::environment::is_valid"), "environment::is_valid")
    forced, checked = set(), set()
    seen_force = False
    for st in X.kids(body):
        if st.get("kind") == "IfStmt":
            ks = X.kids(st)
            cond = X.peel(ks[0])
            if cond.get("kind") == "DeclRefExpr" and cond.get("referencedDecl", {}).get("name") == "force_defined":
                if seen_force:
                    raise Refuse("two `if (force_defined)` blocks in environment::is_valid")
                seen_force = True
                forced |= strip_methods(env_members(ks[1], ["this"]))
                continue
            checked |= strip_methods(env_members(ks[0], ["this"]))
        elif st.get("kind") == "ReturnStmt":
            continue
        else:
            raise Refuse("environment::is_valid: unexpected top-level statement %s" % st.get("kind"))
    if not seen_force:
        raise Refuse("environment::is_valid has no `if (force_defined)` block")
    res["forcedFields"] = sorted(forced)
    res["checkedFields"] = sorted(c for c in checked if not c.startswith("stat."))
    res["statFields"] = sorted(c for c in checked if c.startswith("stat."))
    # ---- the three tune_parameters
    for key, filt, roots in (("tunedBase", "vita::search::tune_parameters", ["this.prob_.env"]),
                             ("tunedSrc", "vita::src_search::tune_parameters", ["env"]),
                             ("tunedGa", "vita::basic_ga_search::tune_parameters", ["this.prob_.env"])):
        body = body_of(X.ast_dump(TU, filt), filt)
        res[key] = sorted(assigned(body, roots))
        if not res[key]:
            raise Refuse("%s assigns no environment parameter (translator out of date?)" % filt)
    return res


def render(res):
    lines = ["/- GENERATED by tools/translate_tune.py from the clang AST of environment.cc, search.tcc,",
             "   gp/src/search.tcc, ga/search.tcc – do not edit. -/",
             "namespace Vita.C06.Gen", ""]
    for k in ("forcedFields", "checkedFields", "statFields", "tunedBase", "tunedSrc", "tunedGa"):
        lines.append("def %s : List String := [%s]" % (k, ", ".join('"%s"' % x for x in res[k])))
        lines.append("")
    lines.append("end Vita.C06.Gen")
    return "\n".join(lines) + "\n"


def emit(path):
    res = extract()
    txt = render(res)
    old = open(path).read() if os.path.exists(path) else None
    if old != txt:
        with open(path, "w") as f:
            f.write(txt)
    return res, old is not None and old != txt


if __name__ == "__main__":
    print(render(extract()))
