#!/usr/bin/env python3
"""C16: what do the validation strategies do to the two dataframes, and who calls them when?

Reads the clang-14 JSON AST of /repo's CURRENT working tree (tools/tu/validation_tu.cc) and writes
lean/Vita/C16/Gen.lean, plain data over the types of Vita/C16/Syntax.lean:

  holdoutInit, dssInit, dssShake, dssClose, shakeImpl, moveToValidation, resetAgeDifficulty,
  clearEvaluators : List Op
        the body of the member function as a sequence of container operations in source order
        (iter_swap / copy / move / erase / clear / partition / for_each / evaluator clear / member call /
        return, one level of `if` and of count-down `for`), positions as offsets from `begin()`, every
        integer operation with the width of its C++ type.  Contracts, asserts and log output are
        dropped (compiled out / no effect on the frames); an `if` whose body has no effect is dropped;
        a local that only READS the frames (averages, the weight sum, the double chain) is a `note`.
        Anything else is refused.
  targetSize : FE       the double chain of `target_size` (literals as the exact decimal of the source)
  weight : WE, weightSum : AccE
  pushBackOverloads     parameter types of `dataframe::push_back` overloads taking an example
  searchRun, evolutionRun : List PTok     the call protocol of `search::run` / `evolution::run`
  installs              what `src_search::validation_strategy(validator_id)` constructs per id

Syntax only; the meaning is in Lean (Interp.lean), Props.lean proves by `decide` that these tables are
the ones Tables.lean states, Bridge.lean that their meaning is the list model.
"""
import os
import re
import sys
from fractions import Fraction

sys.path.insert(0, os.path.dirname(os.path.abspath(__file__)))
import cxx2lean as X  # noqa: E402
from cxx2lean import Refuse  # noqa: E402

TU = "validation_tu.cc"
ROOT = os.path.dirname(os.path.dirname(os.path.abspath(__file__)))
OUT = os.path.join(ROOT, "lean", "Vita", "C16", "Gen.lean")

WRAP = {"ExprWithCleanups", "MaterializeTemporaryExpr", "CXXBindTemporaryExpr", "ConstantExpr", "ParenExpr"}
NOOP_CASTS = {"NoOp", "LValueToRValue", "ConstructorConversion", "FunctionToPointerDecay", "IntegralCast",
              "UserDefinedConversion", "DerivedToBase", "UncheckedDerivedToBase"}
CONT = {"training_": "tr", "validation_": "va"}
WIDTH = {"unsigned int": 32, "unsigned long": 64, "std::size_t": 64, "size_t": 64, "std::uintmax_t": 64,
         "unsigned long long": 64}
FNS = {"move_to_validation": "moveToValidation", "reset_age_difficulty": "resetAgeDifficulty",
       "shake_impl": "shakeImpl", "clear_evaluators": "clearEvaluators"}
PURE_MEMBERS = {"average_age_difficulty"}


def peel(n):
    while True:
        k = n.get("kind")
        ks = X.kids(n)
        if k in WRAP and len(ks) == 1:
            n = ks[0]
        elif k in ("ImplicitCastExpr", "CXXStaticCastExpr", "CXXFunctionalCastExpr") and \
                n.get("castKind") in NOOP_CASTS and len(ks) == 1:
            n = ks[0]
        elif k == "CXXConstructExpr" and len(ks) == 1:
            n = ks[0]
        else:
            return n


def qt(n):
    t = n.get("type", {})
    return t.get("desugaredQualType", t.get("qualType", ""))


def width_of(n, what):
    t = qt(n).replace("const ", "").strip()
    if t not in WIDTH:
        raise Refuse("%s: arithmetic in type %r" % (what, t))
    return WIDTH[t]


def is_log_macro(n):
    ks = X.kids(n)
    return n.get("kind") == "IfStmt" and bool(ks) and bool(X.find_all(
        ks[0], lambda x: x.get("kind") == "DeclRefExpr" and "log::level" in x.get("type", {}).get("qualType", "")))


def is_void0(n):
    n2 = n
    while n2.get("kind") == "ParenExpr":
        n2 = X.kids(n2)[0]
    return n2.get("kind") in ("CXXStaticCastExpr", "CStyleCastExpr") and n2.get("castKind") == "ToVoid"


def callee(n):
    f = peel(X.kids(n)[0])
    if f.get("kind") == "DeclRefExpr":
        return f.get("referencedDecl", {}).get("name")
    if f.get("kind") in ("MemberExpr", "CXXDependentScopeMemberExpr"):
        return f.get("name") or f.get("member")
    if f.get("kind") in ("UnresolvedLookupExpr", "UnresolvedMemberExpr"):
        return f.get("name") or f.get("member")
    return None


def args(n):
    return [a for a in X.kids(n)[1:] if a.get("kind") != "CXXDefaultArgExpr"]


class Body:
    """translation of one member function"""

    def __init__(self, what, params):
        self.what = what
        self.iters = {}       # iterator local -> container
        self.lambdas = {}     # lambda local -> ElemFn
        self.doubles = {}     # double local -> FE
        self.accs = {}        # accumulate local -> AccE text
        self.params = params  # {name: "int" | "cont"}
        self.pred = None

    # ---- containers --------------------------------------------------------------------------
    def cont(self, n):
        n = peel(n)
        if n.get("kind") == "MemberExpr" and n.get("name") in CONT and \
                peel(X.kids(n)[0]).get("kind") == "CXXThisExpr":
            return CONT[n["name"]]
        if n.get("kind") == "DeclRefExpr" and self.params.get(n.get("referencedDecl", {}).get("name")) == "cont":
            return "arg"
        raise Refuse("%s: not one of the two dataframes: %s" % (self.what, n.get("kind")))

    def member_call(self, n, names):
        """(container, member name) when n is `<dataframe>.<name>()`"""
        n = peel(n)
        if n.get("kind") != "CXXMemberCallExpr":
            return None
        f = peel(X.kids(n)[0])
        if f.get("kind") != "MemberExpr" or f.get("name") not in names:
            return None
        try:
            return self.cont(X.kids(f)[0]), f.get("name")
        except Refuse:
            return None

    # ---- integer expressions ---------------------------------------------------------------
    def ix(self, n):
        n = peel(n)
        k = n.get("kind")
        ks = X.kids(n)
        if k == "IntegerLiteral":
            return ".lit %s" % n.get("value")
        if k == "DeclRefExpr":
            name = n.get("referencedDecl", {}).get("name")
            return '.var "%s"' % name
        mc = self.member_call(n, {"size"})
        if mc:
            return ".size .%s" % mc[0]
        if k == "CXXOperatorCallExpr" and callee(n) == "operator*":
            m = peel(ks[1])
            if m.get("kind") == "MemberExpr" and m.get("name") == "validation_percentage":
                return ".perc"
            if m.get("kind") == "MemberExpr" and m.get("name") == "dss":
                return ".gap"
        if k == "BinaryOperator" and n.get("opcode") in ("+", "-", "*"):
            w = width_of(n, self.what)
            op = {"+": "add", "-": "sub", "*": "mul"}[n["opcode"]]
            return ".%s %d (%s) (%s)" % (op, w, self.ix(ks[0]), self.ix(ks[1]))
        if k == "BinaryOperator" and n.get("opcode") in ("/", "%"):
            width_of(n, self.what)
            return ".%s (%s) (%s)" % ("div" if n["opcode"] == "/" else "mod", self.ix(ks[0]), self.ix(ks[1]))
        if k == "CallExpr" and callee(n) == "max" and len(args(n)) == 2:
            a = args(n)
            return ".max (%s) (%s)" % (self.ix(a[0]), self.ix(a[1]))
        if k == "CallExpr" and callee(n) == "sup" and len(args(n)) == 1:
            return ".sup (%s)" % self.ix(args(n)[0])
        if k in ("ImplicitCastExpr", "CXXStaticCastExpr") and n.get("castKind") == "FloatingToIntegral":
            d = peel(ks[0])
            if d.get("kind") == "DeclRefExpr" and d.get("referencedDecl", {}).get("name") == "target_size" \
                    and "target_size" in self.doubles:
                return ".target"
        raise Refuse("%s: integer expression %s not handled" % (self.what, k))

    # ---- iterator positions: (container, offset) ---------------------------------------------
    def pos(self, n):
        n = peel(n)
        k = n.get("kind")
        mc = self.member_call(n, {"begin", "end"})
        if mc:
            return mc[0], (".lit 0" if mc[1] == "begin" else ".size .%s" % mc[0])
        if k == "CallExpr" and callee(n) == "next" and len(args(n)) == 2:
            c, off = self.pos(args(n)[0])
            if off != ".lit 0":
                raise Refuse("%s: std::next from something else than begin()" % self.what)
            return c, self.ix(args(n)[1])
        if k == "DeclRefExpr":
            name = n.get("referencedDecl", {}).get("name")
            if name in self.iters:
                return self.iters[name], '.var "%s"' % name
        raise Refuse("%s: iterator expression %s not handled" % (self.what, k))

    # ---- conditions ------------------------------------------------------------------------------
    def be(self, n):
        n = peel(n)
        k = n.get("kind")
        ks = X.kids(n)
        if k == "BinaryOperator" and n.get("opcode") in ("||", "&&"):
            return ".%s (%s) (%s)" % ("or" if n["opcode"] == "||" else "and", self.be(ks[0]), self.be(ks[1]))
        if k == "UnaryOperator" and n.get("opcode") == "!":
            return ".not (%s)" % self.be(ks[0])
        cmp = {"<": "lt", "<=": "le", ">": "gt", ">=": "ge", "==": "eq", "!=": "ne"}
        if k == "BinaryOperator" and n.get("opcode") in cmp:
            return ".%s (%s) (%s)" % (cmp[n["opcode"]], self.ix(ks[0]), self.ix(ks[1]))
        if k == "CXXOperatorCallExpr" and (callee(n) or "")[8:] in cmp and len(ks) == 3:
            (c1, a), (c2, b) = self.pos(ks[1]), self.pos(ks[2])
            if c1 != c2:
                raise Refuse("%s: comparison of iterators into different frames" % self.what)
            return ".%s (%s) (%s)" % (cmp[callee(n)[8:]], a, b)
        mc = self.member_call(n, {"empty"})
        if mc:
            return ".empty .%s" % mc[0]
        if k == "ImplicitCastExpr" and n.get("castKind") == "PointerToBoolean":
            m = peel(ks[0])
            if m.get("kind") == "MemberExpr" and m.get("name") == "eva_t_":
                return ".hasEvaT"
        if k == "ImplicitCastExpr" and n.get("castKind") == "IntegralToBoolean":
            return ".nz (%s)" % self.ix(ks[0])
        if k == "MemberExpr" and n.get("name") == "eva_t_":
            return ".hasEvaT"
        raise Refuse("%s: condition %s not handled" % (self.what, k))

    # ---- per-example functions ----------------------------------------------------------------
    def elem_fn(self, n):
        n = peel(n)
        if n.get("kind") == "DeclRefExpr" and n.get("referencedDecl", {}).get("name") in self.lambdas:
            return self.lambdas[n["referencedDecl"]["name"]]
        if n.get("kind") != "LambdaExpr":
            raise Refuse("%s: for_each with %s" % (self.what, n.get("kind")))
        body = [c for c in X.kids(n) if c.get("kind") == "CompoundStmt"][-1]
        sets, incs = {}, []
        for st in X.kids(body):
            st = peel(st)
            ks = X.kids(st)
            if st.get("kind") == "BinaryOperator" and st.get("opcode") == "=":
                lhs, rhs = peel(ks[0]), peel(ks[1])
                fld = lhs.get("name") or lhs.get("member")
                if lhs.get("kind") not in ("MemberExpr", "CXXDependentScopeMemberExpr") or \
                        rhs.get("kind") != "IntegerLiteral":
                    raise Refuse("%s: lambda assignment not understood" % self.what)
                sets[fld] = int(rhs.get("value"))
            elif st.get("kind") == "UnaryOperator" and st.get("opcode") == "++":
                lhs = peel(ks[0])
                incs.append(lhs.get("name") or lhs.get("member"))
            else:
                raise Refuse("%s: lambda statement %s not understood" % (self.what, st.get("kind")))
        if sets == {"difficulty": 0, "age": 1} and not incs:
            return ".resetAgeDiff"
        if not sets and incs == ["age"]:
            return ".incAge"
        raise Refuse("%s: per-example function sets %r increments %r" % (self.what, sets, incs))

    # ---- double chain ----------------------------------------------------------------------------
    def fe(self, n):
        n = peel(n)
        k = n.get("kind")
        ks = X.kids(n)
        if k == "FloatingLiteral":
            fr = Fraction(repr(float(n.get("value"))))
            return ".lit %d %d" % (fr.numerator, fr.denominator)
        if k == "DeclRefExpr":
            name = n.get("referencedDecl", {}).get("name")
            if name in self.doubles:
                return self.doubles[name]
        if k in ("ImplicitCastExpr", "CXXStaticCastExpr") and n.get("castKind") == "IntegralToFloating":
            mc = self.member_call(ks[0], {"size"})
            if mc:
                return ".sizeD .%s" % mc[0]
        if k == "BinaryOperator" and n.get("opcode") in ("+", "*", "/") and qt(n) == "double":
            op = {"+": "add", "*": "mul", "/": "div"}[n["opcode"]]
            return ".%s (%s) (%s)" % (op, self.fe(ks[0]), self.fe(ks[1]))
        if k == "CallExpr" and callee(n) in ("min", "max") and len(args(n)) == 2:
            a = args(n)
            return ".%s (%s) (%s)" % (callee(n), self.fe(a[0]), self.fe(a[1]))
        raise Refuse("%s: double expression %s not handled" % (self.what, k))

    # ---- statements ----------------------------------------------------------------------------
    def simple(self, n, out):
        """append the Op0s of one statement to `out`"""
        if n.get("kind") in ("NullStmt",) or is_void0(n) or is_log_macro(n):
            return
        k0 = n.get("kind")
        if k0 == "DeclStmt":
            for v in X.kids(n):
                self.decl(v, out)
            return
        if k0 == "ReturnStmt":
            ks = X.kids(n)
            if not ks:
                out.append(".ret none")
                return
            v = peel(ks[0])
            if v.get("kind") == "CXXBoolLiteralExpr":
                out.append(".ret (some %s)" % ("true" if v.get("value") else "false"))
                return
            raise Refuse("%s: return of %s" % (self.what, v.get("kind")))
        n = peel(n)
        k = n.get("kind")
        ks = X.kids(n)
        if k == "CallExpr":
            c = callee(n)
            a = args(n)
            if c == "iter_swap" and len(a) == 2:
                (c1, i), (c2, j) = self.pos(a[0]), self.pos(a[1])
                if c1 != c2:
                    raise Refuse("%s: iter_swap across frames" % self.what)
                out.append(".swap .%s (%s) (%s)" % (c1, i, j))
                return
            if c in ("copy", "move") and len(a) == 3:
                (c1, f), (c2, l) = self.pos(a[0]), self.pos(a[1])
                d = peel(a[2])
                if c1 != c2 or d.get("kind") != "CallExpr" or callee(d) != "back_inserter":
                    raise Refuse("%s: std::%s shape" % (self.what, c))
                out.append(".%sBack .%s (%s) (%s) .%s" % (c, c1, f, l, self.cont(args(d)[0])))
                return
            if c == "for_each" and len(a) == 3:
                (c1, f), (c2, l) = self.pos(a[0]), self.pos(a[1])
                if c1 != c2 or f != ".lit 0" or l != ".size .%s" % c1:
                    raise Refuse("%s: for_each over a sub-range" % self.what)
                out.append(".forEach .%s %s" % (c1, self.elem_fn(a[2])))
                return
            raise Refuse("%s: call of %s" % (self.what, c))
        if k == "CXXMemberCallExpr":
            f = peel(ks[0])
            name = f.get("name")
            obj = peel(X.kids(f)[0]) if X.kids(f) else {}
            a = args(n)
            if obj.get("kind") == "CXXThisExpr" and name in FNS:
                arg = "none" if not a else "(some .%s)" % self.cont(a[0])
                out.append(".call .%s %s" % (FNS[name], arg))
                return
            if name == "clear" and obj.get("kind") == "MemberExpr" and obj.get("name") in ("eva_t_", "eva_v_"):
                out.append(".clearEva .%s" % obj["name"][4])
                return
            if name == "clear" and not a:
                out.append(".clear .%s" % self.cont(obj))
                return
            if name == "clone_schema" and len(a) == 1:      # metadata only (body checked: clone_schema_sets)
                out.append(".cloneSchema .%s .%s" % (self.cont(obj), self.cont(a[0])))
                return
            if name == "erase" and len(a) == 2:
                c = self.cont(obj)
                (c1, f1), (c2, l1) = self.pos(a[0]), self.pos(a[1])
                if c1 != c or c2 != c:
                    raise Refuse("%s: erase with iterators of another frame" % self.what)
                out.append(".erase .%s (%s) (%s)" % (c, f1, l1))
                return
            raise Refuse("%s: member call %s" % (self.what, name))
        if k == "CXXOperatorCallExpr" and callee(n) == "operator=" and len(ks) == 3:
            lhs = peel(ks[1])
            name = lhs.get("referencedDecl", {}).get("name")
            if lhs.get("kind") == "DeclRefExpr" and name in self.iters:
                c, off = self.pos(ks[2])
                if c != self.iters[name]:
                    raise Refuse("%s: iterator %s re-pointed into another frame" % (self.what, name))
                out.append('.set "%s" (%s)' % (name, off))
                return
        raise Refuse("%s: statement %s not handled" % (self.what, k))

    def decl(self, v, out):
        if v.get("kind") in ("TypeAliasDecl", "TypedefDecl", "StaticAssertDecl", "UsingDecl"):
            return
        if v.get("kind") != "VarDecl":
            raise Refuse("%s: declaration %s" % (self.what, v.get("kind")))
        name = v.get("name")
        t = qt(v)
        init = [c for c in X.kids(v) if c.get("kind") != "FullComment"]
        if len(init) != 1:
            raise Refuse("%s: local %s without a single initialiser" % (self.what, name))
        e = peel(init[0])
        tt = t.replace("const ", "").replace(" const", "").strip()
        if "__normal_iterator" in t:
            if e.get("kind") == "CallExpr" and callee(e) == "partition":
                a = args(e)
                (c1, f), (c2, l) = self.pos(a[0]), self.pos(a[1])
                if c1 != c2 or f != ".lit 0" or l != ".size .%s" % c1:
                    raise Refuse("%s: partition of a sub-range" % self.what)
                self.pred = self.predicate(a[2])
                self.iters[name] = c1
                out.append('.partition .%s "%s"' % (c1, name))
                return
            c, off = self.pos(e)
            self.iters[name] = c
            out.append('.set "%s" (%s)' % (name, off))
            return
        if e.get("kind") == "LambdaExpr":
            self.lambdas[name] = self.elem_fn(e)
            return
        if tt == "double":
            self.doubles[name] = self.fe(e) if name != "k" else ".k"
            out.append('.note "%s" "double"' % name)
            return
        if e.get("kind") == "CXXMemberCallExpr" and callee(e) in PURE_MEMBERS:
            out.append('.note "%s" "%s(%s)"' % (name, callee(e), {"tr": "training_", "va": "validation_"}[
                self.cont(args(e)[0])]))
            return
        if e.get("kind") == "CallExpr" and callee(e) == "accumulate":
            self.accs[name] = self.accumulate(e)
            out.append('.note "%s" "accumulate(%s, weight)"' % (
                name, {"tr": "training_", "va": "validation_"}[self.accs[name][0]]))
            return
        if tt in WIDTH or tt.startswith("vita::facultative_with_policy"):
            out.append('.set "%s" (%s)' % (name, self.ix(e)))
            return
        raise Refuse("%s: local %s of type %s" % (self.what, name, t))

    def accumulate(self, e):
        a = args(e)
        (c1, f), (c2, l) = self.pos(a[0]), self.pos(a[1])
        if c1 != c2 or f != ".lit 0" or l != ".size .%s" % c1:
            raise Refuse("%s: accumulate over a sub-range" % self.what)
        init = peel(a[2])
        if init.get("kind") != "IntegerLiteral":
            raise Refuse("%s: accumulate initial value" % self.what)
        w = width_of(a[2], self.what)
        lam = peel(a[3])
        body = [c for c in X.kids(lam) if c.get("kind") == "CompoundStmt"][-1]
        st = X.kids(body)
        if len(st) != 1 or st[0].get("kind") != "ReturnStmt":
            raise Refuse("%s: accumulate lambda" % self.what)
        r = peel(X.kids(st[0])[0])
        rk = X.kids(r)
        if r.get("kind") != "BinaryOperator" or r.get("opcode") != "+" or width_of(r, self.what) != w:
            raise Refuse("%s: accumulate lambda is not `s + weight(e)`" % self.what)
        s0, w0 = peel(rk[0]), peel(rk[1])
        if s0.get("kind") != "DeclRefExpr" or w0.get("kind") != "CallExpr" or callee(w0) != "weight":
            raise Refuse("%s: accumulate lambda is not `s + weight(e)`" % self.what)
        return c1, w, int(init.get("value"))

    def predicate(self, lam):
        """`[k](const auto &e) { p1 = double(weight(e)) * k; prob = min(p1, 1.0); return boolean(prob) == false; }`
        -> canonical text"""
        lam = peel(lam)
        body = [c for c in X.kids(lam) if c.get("kind") == "CompoundStmt"][-1]
        parts = []
        for st in X.kids(body):
            if st.get("kind") == "DeclStmt":
                for v in X.kids(st):
                    parts.append("%s=%s" % (v.get("name"), self.ptxt(X.kids(v)[0])))
            elif st.get("kind") == "ReturnStmt":
                parts.append("return %s" % self.ptxt(X.kids(st)[0]))
            else:
                raise Refuse("%s: predicate statement %s" % (self.what, st.get("kind")))
        return "; ".join(parts)

    def ptxt(self, n):
        n = peel(n)
        k = n.get("kind")
        ks = X.kids(n)
        if k == "DeclRefExpr":
            return n.get("referencedDecl", {}).get("name")
        if k == "FloatingLiteral":
            return repr(float(n.get("value")))
        if k == "CXXBoolLiteralExpr":
            return "true" if n.get("value") else "false"
        if k == "BinaryOperator":
            return "(%s %s %s)" % (self.ptxt(ks[0]), n.get("opcode"), self.ptxt(ks[1]))
        if k == "CallExpr":
            return "%s(%s)" % (callee(n), ", ".join(self.ptxt(a) for a in args(n)))
        if k in ("CXXStaticCastExpr", "ImplicitCastExpr"):
            return "%s(%s)" % (qt(n), self.ptxt(ks[0]))
        raise Refuse("%s: predicate expression %s" % (self.what, k))

    def block(self, n):
        out = []
        for c in (X.kids(n) if n.get("kind") == "CompoundStmt" else [n]):
            if c.get("kind") in ("IfStmt", "ForStmt", "CompoundStmt") and not is_log_macro(c):
                raise Refuse("%s: nesting deeper than one level" % self.what)
            self.simple(c, out)
        return out

    def top(self, body):
        ops = []
        for c in X.kids(body):
            k = c.get("kind")
            if k == "IfStmt" and not is_log_macro(c):
                if c.get("hasInit") or c.get("hasVar") or c.get("hasElse"):
                    raise Refuse("%s: if with init / variable / else" % self.what)
                ks = X.kids(c)
                cond = self.be(ks[0])
                inner = self.block(ks[1])
                if inner:
                    ops.append(".ifThen (%s) [%s]" % (cond, ", ".join(inner)))
                elif ".sup" in cond:
                    raise Refuse("%s: effect-free if with a draw in its condition" % self.what)
            elif k == "ForStmt":
                inner = c.get("inner", [])
                if len(inner) != 5 or inner[1].get("kind"):
                    raise Refuse("%s: for statement shape" % self.what)
                init, _, cond, inc, fbody = inner
                vs = X.kids(init) if init.get("kind") == "DeclStmt" else []
                if len(vs) != 1 or vs[0].get("kind") != "VarDecl" or width_of(vs[0], self.what) != 64:
                    raise Refuse("%s: for initialisation" % self.what)
                var = vs[0].get("name")
                start = self.ix(X.kids(vs[0])[0])
                incp = peel(inc)
                tgt = peel(X.kids(incp)[0]) if X.kids(incp) else {}
                if incp.get("kind") != "UnaryOperator" or incp.get("opcode") != "--" or \
                        tgt.get("referencedDecl", {}).get("name") != var:
                    raise Refuse("%s: for increment is not `--%s`" % (self.what, var))
                ops.append('.forDown "%s" (%s) (%s) [%s]' % (var, start, self.be(cond),
                                                            ", ".join(self.block(fbody))))
            else:
                out = []
                self.simple(c, out)
                ops += [".s (%s)" % o for o in out]
        return ops


# ---- one clang run per filter, in parallel ----------------------------------------------------
FILTERS = ["vita::holdout_validation::init", "vita::dss::", "weight", "vita::dataframe::push_back",
           "vita::dataframe::clone_schema",
           "vita::search::run", "vita::evolution::run", "vita::src_search::validation_strategy"]
_DUMPS = {}


def dump(filt):
    if filt not in _DUMPS:
        _DUMPS[filt] = X.ast_dump(TU, filt)
    return _DUMPS[filt]


def prefetch():
    import concurrent.futures as cf
    with cf.ThreadPoolExecutor(4) as ex:
        for f, d in zip(FILTERS, ex.map(lambda f: X.ast_dump(TU, f), FILTERS)):
            _DUMPS[f] = d


# ---- lookup of definitions -------------------------------------------------------------------
def with_body(docs, name):
    out = []

    def walk(n):
        if n.get("kind") in ("CXXMethodDecl", "FunctionDecl") and n.get("name") == name and \
                any(c.get("kind") == "CompoundStmt" for c in X.kids(n)):
            out.append(n)
            return
        if n.get("kind") in ("FunctionTemplateDecl", "ClassTemplateDecl", "CXXRecordDecl", "NamespaceDecl"):
            for c in X.kids(n):
                if c.get("kind") != "ClassTemplateSpecializationDecl":
                    walk(c)

    for d in docs:
        walk(d)
    return out


def body_of(n):
    return [c for c in X.kids(n) if c.get("kind") == "CompoundStmt"][0]


def member(filt, name):
    docs = dump("vita::dss::") if filt.startswith("vita::dss::") else dump(filt)
    defs = with_body(docs, name)
    if len(defs) != 1:
        raise Refuse("%s: %d definitions" % (filt, len(defs)))
    params = {}
    for p in X.kids(defs[0]):
        if p.get("kind") == "ParmVarDecl" and p.get("name"):
            params[p["name"]] = "cont" if "dataframe" in qt(p) else "int"
    return defs[0], params


def check_pure(filt, name):
    """`average_age_difficulty` only reads its frame"""
    d, _ = member(filt, name)
    bad = []
    for c in X.find_all(body_of(d), lambda x: x.get("kind") in ("CallExpr", "CXXMemberCallExpr")):
        nm = callee(c)
        if nm not in ("size", "begin", "end", "accumulate", "pair", None):
            bad.append(nm)
    for c in X.find_all(body_of(d), lambda x: x.get("kind") in ("BinaryOperator", "CompoundAssignOperator") and
                        x.get("opcode", "").endswith("=") and x.get("opcode") not in ("==", "!=", "<=", ">=")):
        root = peel(X.kids(c)[0])
        while root.get("kind") == "MemberExpr":
            root = peel(X.kids(root)[0])
        if root.get("kind") != "DeclRefExpr" or root.get("referencedDecl", {}).get("kind") != "VarDecl":
            bad.append("assignment to a non-local")
    if bad:
        raise Refuse("%s is not read-only: %s" % (filt, bad))


def weight_expr():
    defs = [d for d in with_body(dump("weight"), "weight")]
    if len(defs) != 1:
        raise Refuse("weight(): %d definitions" % len(defs))
    st = X.kids(body_of(defs[0]))
    if len(st) != 1 or st[0].get("kind") != "ReturnStmt":
        raise Refuse("weight(): body is not a single return")

    def we(n):
        while n.get("kind") in WRAP or (n.get("kind") == "ImplicitCastExpr" and
                                       n.get("castKind") in ("LValueToRValue", "NoOp")):
            n = X.kids(n)[0]
        k = n.get("kind")
        ks = X.kids(n)
        if k == "MemberExpr" and n.get("name") in ("difficulty", "age"):
            return ".diff" if n["name"] == "difficulty" else ".age"
        if k in ("CXXStaticCastExpr", "ImplicitCastExpr") and n.get("castKind") in ("IntegralCast", "NoOp"):
            if WIDTH.get(qt(n).replace("const ", "")) != 64:
                raise Refuse("weight(): cast to %s" % qt(n))
            inner = we(ks[0])
            return inner if (n.get("castKind") == "NoOp") else ".cast64 (%s)" % inner
        if k == "BinaryOperator" and n.get("opcode") in ("+", "*"):
            if width_of(n, "weight()") != 64:
                raise Refuse("weight(): arithmetic narrower than 64 bits")
            return ".%s64 (%s) (%s)" % ("add" if n["opcode"] == "+" else "mul", we(ks[0]), we(ks[1]))
        raise Refuse("weight(): expression %s" % k)

    return we(X.kids(st[0])[0])


def push_back_overloads():
    out = []
    for d in dump("vita::dataframe::push_back"):
        if d.get("kind") == "CXXMethodDecl" and d.get("name") == "push_back":
            ps = [p for p in X.kids(d) if p.get("kind") == "ParmVarDecl"]
            if len(ps) == 1 and "example" in qt(ps[0]):
                out.append(qt(ps[0]))
    return sorted(set(out))


def clone_schema_sets():
    """`dataframe::clone_schema(const dataframe &other)`: every statement is `member = other.member`"""
    defs = with_body(dump("vita::dataframe::clone_schema"), "clone_schema")
    if len(defs) != 1:
        raise Refuse("dataframe::clone_schema: %d definitions" % len(defs))
    ps = [p.get("name") for p in X.kids(defs[0]) if p.get("kind") == "ParmVarDecl"]
    out = []
    for st in X.kids(body_of(defs[0])):
        if st.get("kind") == "NullStmt" or is_void0(st):
            continue
        e = peel(st)
        ks = X.kids(e)
        if e.get("kind") == "CXXOperatorCallExpr" and callee(e) == "operator=" and len(ks) == 3:
            lhs, rhs = peel(ks[1]), peel(ks[2])
        elif e.get("kind") == "BinaryOperator" and e.get("opcode") == "=":
            lhs, rhs = peel(ks[0]), peel(ks[1])
        else:
            raise Refuse("dataframe::clone_schema: statement %s" % e.get("kind"))
        if lhs.get("kind") != "MemberExpr" or peel(X.kids(lhs)[0]).get("kind") != "CXXThisExpr":
            raise Refuse("dataframe::clone_schema: assignment to something else than a member")
        src = peel(X.kids(rhs)[0]) if rhs.get("kind") == "MemberExpr" and X.kids(rhs) else {}
        if rhs.get("kind") != "MemberExpr" or src.get("referencedDecl", {}).get("name") not in ps:
            raise Refuse("dataframe::clone_schema: right-hand side is not a member of the parameter")
        out.append((lhs.get("name"), "%s.%s" % (src["referencedDecl"]["name"], rhs.get("name"))))
    return out


# ---- the call protocol -----------------------------------------------------------------------
def mentions(n, name):
    return bool(X.find_all(n, lambda x: (x.get("name") == name or x.get("member") == name or
                                         x.get("referencedDecl", {}).get("name") == name)))


def vs_call(n):
    """`vs_->init(r)` / `vs_->close(r)` / `vs_->shake(g)` -> member name"""
    c = [x for x in X.find_all(n, lambda x: x.get("kind") in ("CXXMemberCallExpr", "CallExpr"))
         if X.kids(x) and peel(X.kids(x)[0]).get("kind") in ("MemberExpr", "CXXDependentScopeMemberExpr") and
         mentions(X.kids(x)[0], "vs_")]
    names = [(peel(X.kids(x)[0]).get("name") or peel(X.kids(x)[0]).get("member")) for x in c]
    return sorted({nm for nm in names if nm in ("init", "close", "shake")})


def search_run():
    defs = with_body(dump("vita::search::run"), "run")
    if len(defs) != 1:
        raise Refuse("search::run: %d definitions" % len(defs))
    toks = []
    shake_ok = False
    src = open(os.path.join(X.REPO, "src", "kernel", "search.tcc")).read()

    def stmts(body, depth):
        nonlocal shake_ok
        for c in X.kids(body):
            k = c.get("kind")
            if k == "ForStmt":
                inner = c.get("inner", [])
                init, cond, inc = inner[0], inner[2], inner[3]
                v = X.kids(init)[0] if init.get("kind") == "DeclStmt" else {}
                z = peel(X.kids(v)[0]) if X.kids(v) else {}
                if depth or z.get("kind") != "IntegerLiteral" or z.get("value") != "0" or \
                        peel(inc).get("opcode") != "++" or peel(cond).get("opcode") != "<":
                    raise Refuse("search::run: loop over the runs is not `for (r = 0; r < n; ++r)`")
                toks.append(".forRunsBegin")
                stmts(inner[4], depth + 1)
                toks.append(".forRunsEnd")
                continue
            if k in ("IfStmt", "WhileStmt", "DoStmt", "SwitchStmt") and not is_log_macro(c):
                raise Refuse("search::run: control statement %s" % k)
            vc = vs_call(c)
            if k == "DeclStmt" and vc == ["shake"]:
                shake_ok = True                       # auto shake([this](unsigned g) { return vs_->shake(g); })
                continue
            if vc == ["init"]:
                toks.append(".vsInit")
            elif vc == ["close"]:
                toks.append(".vsClose")
            elif vc:
                raise Refuse("search::run: strategy calls %r in one statement" % vc)
            elif mentions(c, "evolution") or (k == "DeclStmt" and mentions(c, "after_generation")):
                if not (mentions(c, "shake") and mentions(c, "after_generation_callback_") and mentions(c, "eva1_")):
                    raise Refuse("search::run: evolution is not run with the shake function, the callback and eva1_")
                toks.append(".evolve")
            elif k in ("CallExpr", "CXXMemberCallExpr") or (k == "ExprWithCleanups"):
                nm = callee(peel(c)) if peel(c).get("kind") in ("CallExpr", "CXXMemberCallExpr") else None
                if nm is None:                            # UnresolvedMemberExpr carries no name: read the token
                    b = peel(c).get("range", {}).get("begin", {})
                    if "offset" in b and "tokLen" in b:
                        nm = src[b["offset"]:b["offset"] + b["tokLen"]]
                if nm == "init":
                    toks.append(".searchInit")
                elif nm == "close":
                    toks.append(".searchClose")
                elif nm == "calculate_metrics":
                    toks.append(".metrics")
                elif nm in ("after_evolution", "update", "log_stats"):
                    pass                                  # output / statistics of the search
                else:
                    raise Refuse("search::run: call of %s" % nm)
            elif k in ("DeclStmt", "ReturnStmt", "NullStmt"):
                pass
            else:
                raise Refuse("search::run: statement %s" % k)

    stmts(body_of(defs[0]), 0)
    if not shake_ok:
        raise Refuse("search::run: the shake function handed to evolution is not `vs_->shake(g)`")
    return toks


def evolution_run():
    defs = [d for d in with_body(dump("vita::evolution::run"), "run")
            if len([p for p in X.kids(d) if p.get("kind") == "ParmVarDecl"]) == 2]
    if len(defs) != 1:
        raise Refuse("evolution::run(unsigned, S): %d definitions" % len(defs))
    toks = []

    def is_shake(c):
        return bool(X.find_all(c, lambda x: x.get("kind") == "CallExpr" and X.kids(x) and
                               peel(X.kids(x)[0]).get("referencedDecl", {}).get("name") == "shake"))

    def is_cb(c):
        return bool(X.find_all(c, lambda x: x.get("kind") in ("CallExpr", "CXXOperatorCallExpr") and
                               mentions(X.kids(x)[0] if x.get("kind") == "CallExpr" else x,
                                        "after_generation_callback_") and len(X.kids(x)) >= 3))

    for c in X.kids(body_of(defs[0])):
        k = c.get("kind")
        if k == "ForStmt":
            inner = c.get("inner", [])
            if not (mentions(inner[0], "gen") and peel(inner[3]).get("opcode") == "++" and mentions(inner[3], "gen")
                    and mentions(inner[2], "stop_condition")):
                raise Refuse("evolution::run: generation loop shape")
            z = X.find_all(inner[0], lambda x: x.get("kind") == "IntegerLiteral")
            if [x.get("value") for x in z] != ["0"]:
                raise Refuse("evolution::run: generations do not start at 0")
            toks.append(".forGensBegin")
            for s in X.kids(inner[4]):
                if is_shake(s):
                    if s.get("kind") != "IfStmt" or not is_shake(X.kids(s)[0]) or not mentions(X.kids(s)[0], "gen"):
                        raise Refuse("evolution::run: shake is not called as `if (shake(stats_.gen))`")
                    toks.append(".shake")
                elif is_cb(s):
                    toks.append(".callback")
                elif s.get("kind") == "ForStmt":
                    toks.append(".breed")
            toks.append(".forGensEnd")
        elif is_shake(c) or is_cb(c):
            raise Refuse("evolution::run: shake / callback outside the generation loop")
        elif mentions(c, "eva_") and mentions(c, "fitness"):
            toks.append(".evalBest")
    return toks


def installs():
    path = os.path.join(X.REPO, "src", "kernel", "gp", "src", "search.tcc")
    src = open(path).read()
    m = re.search(r"src_search<T, ES>::validation_strategy\(validator_id id\)\s*\{(.*?)\n\}", src, re.S)
    if not m:
        raise Refuse("src_search::validation_strategy(validator_id): definition not found")
    body = re.sub(r"//[^\n]*", "", m.group(1))
    out = []
    for cm in re.finditer(r"case validator_id::(\w+):(.*?)break;", body, re.S):
        calls = re.findall(r"validation_strategy<(\w+)>\s*\((.*?)\)\s*;", cm.group(2), re.S)
        if len(calls) != 1:
            raise Refuse("src_search::validation_strategy: case %s installs %d strategies" % (cm.group(1), len(calls)))
        cls, a = calls[0]
        al = [re.sub(r"\s+", "", x).replace("this->", "") for x in a.split(",")] if a.strip() else []
        out.append((cm.group(1), cls, al))
    # the AST must agree on the number of cases (the text scan is not fooled by a macro / comment)
    defs = with_body(dump("vita::src_search::validation_strategy"), "validation_strategy")
    ncase = sum(len(X.find_all(d, lambda x: x.get("kind") == "CaseStmt")) for d in defs)
    if ncase != len(out):
        raise Refuse("src_search::validation_strategy: %d cases in the AST, %d in the text" % (ncase, len(out)))
    return out


def lean_str(s):
    return '"' + s.replace("\\", "\\\\").replace('"', '\\"') + '"'


SOURCES = ["src/kernel/gp/src/holdout_validation.cc", "src/kernel/gp/src/holdout_validation.h",
           "src/kernel/gp/src/dss.cc", "src/kernel/gp/src/dss.h", "src/kernel/gp/src/dataframe.h",
           "src/kernel/gp/src/dataframe.cc",
           "src/kernel/gp/src/search.tcc", "src/kernel/gp/src/search.h", "src/kernel/search.tcc", "src/kernel/search.h",
           "src/kernel/evolution.tcc", "src/kernel/evolution.h", "src/kernel/validation_strategy.h",
           "src/kernel/random.h", "src/kernel/log.h", "src/utility/contracts.h", "src/utility/facultative.h",
           "src/kernel/environment.h", "src/kernel/evaluator.h", "src/kernel/vita.h"]


def stamp():
    import hashlib
    h = hashlib.sha256()
    for f in SOURCES:
        try:
            h.update(open(os.path.join(X.REPO, f), "rb").read())
        except OSError:
            h.update(b"missing " + f.encode())
    for f in (os.path.abspath(__file__), os.path.join(X.HERE, "tu", TU), os.path.join(X.HERE, "cxx2lean.py")):
        h.update(open(f, "rb").read())
    return h.hexdigest()


def main():
    # the extraction is a pure function of these sources: skip the clang runs when nothing changed
    sdir = os.path.join(ROOT, "build")
    os.makedirs(sdir, exist_ok=True)
    sfile = os.path.join(sdir, "c16_translate.stamp")
    key = stamp()
    if os.path.exists(OUT) and os.path.exists(sfile):
        st = open(sfile).read().split()
        import hashlib
        if len(st) == 2 and st[0] == key and st[1] == hashlib.sha256(open(OUT, "rb").read()).hexdigest():
            print("ok (unchanged sources, cached)")
            return 0
    rc = translate()
    if rc == 0:
        import hashlib
        with open(sfile, "w") as f:
            f.write(key + " " + hashlib.sha256(open(OUT, "rb").read()).hexdigest())
    return rc


def translate():
    fns = [("holdoutInit", "vita::holdout_validation::init", "init"),
           ("dssInit", "vita::dss::init", "init"),
           ("dssShake", "vita::dss::shake", "shake"),
           ("dssClose", "vita::dss::close", "close"),
           ("shakeImpl", "vita::dss::shake_impl", "shake_impl"),
           ("moveToValidation", "vita::dss::move_to_validation", "move_to_validation"),
           ("resetAgeDifficulty", "vita::dss::reset_age_difficulty", "reset_age_difficulty"),
           ("clearEvaluators", "vita::dss::clear_evaluators", "clear_evaluators")]
    tables = {}
    extra = {}
    prefetch()
    for key, filt, name in fns:
        d, params = member(filt, name)
        b = Body(filt, params)
        tables[key] = b.top(body_of(d))
        if key == "shakeImpl":
            if "target_size" not in b.doubles:
                raise Refuse("shake_impl: no `target_size`")
            extra["targetSize"] = b.doubles["target_size"]
            if len(b.accs) != 1:
                raise Refuse("shake_impl: %d accumulations" % len(b.accs))
            extra["acc"] = list(b.accs.values())[0]
            extra["pred"] = b.pred or ""
    check_pure("vita::dss::average_age_difficulty", "average_age_difficulty")
    w = weight_expr()

    L = ["/-", "  GENERATED by tools/translate_validation.py from the clang AST of /repo's working tree – do not edit.",
         "  Container programs of the validation strategies, the double chain of `target_size`, the weight,",
         "  the call protocol of search::run / evolution::run and the strategies src_search installs.", "-/",
         "import Vita.C16.Syntax", "namespace Vita.C16", "namespace Gen", ""]
    for key, _, _ in fns:
        L.append("def %s : List Op :=" % key)
        L.append("  [ " + ",\n    ".join(tables[key]) + " ]")
        L.append("")
    L.append("def targetSize : FE := %s" % extra["targetSize"])
    L.append("")
    L.append("def weight : WE := %s" % w)
    L.append("")
    c, wd, init = extra["acc"]
    L.append("def weightSum : AccE := ⟨.%s, %d, %d, weight⟩" % (c, wd, init))
    L.append("")
    L.append("def selectPred : String := %s" % lean_str(extra["pred"]))
    L.append("")
    L.append("def cloneSchemaSets : List (String × String) := [%s]"
             % ", ".join("(%s, %s)" % (lean_str(a), lean_str(b)) for a, b in clone_schema_sets()))
    L.append("")
    L.append("def pushBackOverloads : List String := [%s]" % ", ".join(lean_str(x) for x in push_back_overloads()))
    L.append("")
    L.append("def searchRun : List PTok := [%s]" % ", ".join(search_run()))
    L.append("")
    L.append("def evolutionRun : List PTok := [%s]" % ", ".join(evolution_run()))
    L.append("")
    L.append("def installs : List (String × String × List String) :=")
    L.append("  [ " + ",\n    ".join("(%s, %s, [%s])" % (lean_str(a), lean_str(b), ", ".join(lean_str(x) for x in c))
                                     for a, b, c in installs()) + " ]")
    L += ["", "end Gen", "end Vita.C16", ""]
    txt = "\n".join(L)
    old = open(OUT).read() if os.path.exists(OUT) else None
    if old != txt:
        with open(OUT, "w") as f:
            f.write(txt)
    print("ok %d functions" % len(fns))
    return 0


if __name__ == "__main__":
    try:
        sys.exit(main())
    except Refuse as e:
        print("REFUSED: %s" % e)
        sys.exit(3)
