// translation unit for tools/translate_c08_storage.py (C08): the storage classes of the lambda
// functions (template PATTERNS), the evaluators' lambdify (instantiated for i_mep so that the
// type handed out is resolved) and src_search::lambdify (pattern).
#include "kernel/vita.h"

template class vita::sum_of_errors_evaluator<vita::i_mep, vita::mae_error_functor<vita::i_mep>>;
template class vita::dyn_slot_evaluator<vita::i_mep>;
template class vita::gaussian_evaluator<vita::i_mep>;
template class vita::binary_evaluator<vita::i_mep>;
