// translation unit handed to clang for the AST of vita::cache's member functions
// (tools/translate_cache_locks.py, property C15)
#include "kernel/vita.h"
#include "kernel/cache.cc"
