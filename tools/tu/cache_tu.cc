// Translation unit for tools/translate_cache.py (property C04): vita::cache, hash_t, evaluator_proxy,
// the validation strategies and the loop of search::run / evolution::run, with the templates
// explicitly instantiated so that the AST of their members is fully resolved.
#include "kernel/vita.h"

// out-of-line definitions living in .cc files
#include "kernel/cache.cc"
#include "kernel/gp/src/dss.cc"
#include "kernel/gp/src/holdout_validation.cc"

template class vita::evaluator_proxy<vita::i_mep, vita::mae_evaluator<vita::i_mep>>;
template class vita::evolution<vita::i_mep, vita::std_es>;
template class vita::search<vita::i_mep, vita::std_es>;
template class vita::src_search<vita::i_mep, vita::std_es>;
