// translation unit handed to clang for the declared types of every counter / accumulator the evaluators of
// src/kernel/gp/src/evaluator.tcc and the classifiers they build (lambda_f.tcc, distribution.tcc) keep,
// instantiated for i_mep (tools/translate_counters.py).  The classifiers <i_mep, false, false> are instantiated implicitly by
// the evaluators: exactly the members an evaluation runs.
#include "kernel/vita.h"

template class vita::sum_of_errors_evaluator<vita::i_mep, vita::mae_error_functor<vita::i_mep>>;
template class vita::dyn_slot_evaluator<vita::i_mep>;
template class vita::gaussian_evaluator<vita::i_mep>;
template class vita::binary_evaluator<vita::i_mep>;
template class vita::distribution<double>;
