// translation unit handed to clang for the AST of the error functors of the sum-of-errors evaluators
// (src/kernel/gp/src/evaluator.tcc) instantiated for i_mep, and of issmall (src/utility/utility.h)
#include "kernel/vita.h"

template class vita::mae_error_functor<vita::i_mep>;
template class vita::rmae_error_functor<vita::i_mep>;
template class vita::mse_error_functor<vita::i_mep>;
template class vita::count_error_functor<vita::i_mep>;
