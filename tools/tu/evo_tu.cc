// translation unit handed to clang for the AST of evolution<T,ES>::run, summary<T>::summary/clear,
// the selection / replacement strategies and the ALPS after_generation (tools/translate_evolution.py)
#include "kernel/vita.h"
