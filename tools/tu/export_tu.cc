// translation unit handed to clang for the AST of the print-format machinery (C19):
// out::print_format_t, the manipulators of namespace out (individual.cc), operator<<(ostream&, i_mep)
// (i_mep.cc) and operator<<(ostream&, team<T>) (team.tcc)
#include "kernel/vita.h"
#include "kernel/individual.cc"
#include "kernel/gp/mep/i_mep.cc"
