// translation unit handed to clang for the AST of the relational operators of
// basic_fitness_t<double> and of model_measurements (explicit instantiations so that the
// bodies are fully resolved: callee declarations, overloads, iterator types)
#include "kernel/fitness.h"
#include "kernel/model_measurements.h"

namespace vita
{
template bool operator==(const basic_fitness_t<double> &, const basic_fitness_t<double> &);
template bool operator!=(const basic_fitness_t<double> &, const basic_fitness_t<double> &);
template bool operator<(const basic_fitness_t<double> &, const basic_fitness_t<double> &);
template bool operator>(const basic_fitness_t<double> &, const basic_fitness_t<double> &);
template bool operator<=(const basic_fitness_t<double> &, const basic_fitness_t<double> &);
template bool operator>=(const basic_fitness_t<double> &, const basic_fitness_t<double> &);
}
