// translation unit handed to clang for the AST of the whole public surface of
// basic_fitness_t<double> (fitness.tcc), of the scalar helpers of utility.h it calls and of
// model_measurements::operator>= (explicit instantiations so that the bodies are fully
// resolved: callee declarations, overloads, iterator types)
#include "kernel/fitness.h"
#include "kernel/model_measurements.h"

namespace vita
{
template class basic_fitness_t<double>;     // operator+= -= *=, size, operator[], begin/end

template bool operator==(const basic_fitness_t<double> &, const basic_fitness_t<double> &);
template bool operator!=(const basic_fitness_t<double> &, const basic_fitness_t<double> &);
template bool operator<(const basic_fitness_t<double> &, const basic_fitness_t<double> &);
template bool operator>(const basic_fitness_t<double> &, const basic_fitness_t<double> &);
template bool operator<=(const basic_fitness_t<double> &, const basic_fitness_t<double> &);
template bool operator>=(const basic_fitness_t<double> &, const basic_fitness_t<double> &);
template bool dominating(const basic_fitness_t<double> &, const basic_fitness_t<double> &);
template bool almost_equal(const basic_fitness_t<double> &, const basic_fitness_t<double> &, double);

template bool isfinite(const basic_fitness_t<double> &);
template bool isnan(const basic_fitness_t<double> &);
template bool isnonnegative(const basic_fitness_t<double> &);
template bool issmall(const basic_fitness_t<double> &);

template basic_fitness_t<double> operator+(basic_fitness_t<double>, const basic_fitness_t<double> &);
template basic_fitness_t<double> operator-(basic_fitness_t<double>, const basic_fitness_t<double> &);
template basic_fitness_t<double> operator*(basic_fitness_t<double>, const basic_fitness_t<double> &);
template basic_fitness_t<double> operator/(basic_fitness_t<double>, double);
template basic_fitness_t<double> operator*(basic_fitness_t<double>, double);
template basic_fitness_t<double> abs(basic_fitness_t<double>);
template basic_fitness_t<double> sqrt(basic_fitness_t<double>);
template basic_fitness_t<double> round_to(basic_fitness_t<double>);
template basic_fitness_t<double> combine(const basic_fitness_t<double> &, const basic_fitness_t<double> &);
template double distance(const basic_fitness_t<double> &, const basic_fitness_t<double> &);
template std::ostream &operator<<(std::ostream &, basic_fitness_t<double>);

// scalar helpers of utility.h
template double round_to(double);
template bool almost_equal(double, double, double);
template bool issmall(double);
template bool isnonnegative(double);
}
