// translation unit handed to clang-query for the USERS layer of C18: the evolution machinery is
// header-only (templates over the individual type), so the selection / replacement /
// recombination strategies, the evolution loop and the search drivers are only instantiated by
// client programs.  The explicit instantiations below are the client: every strategy and driver for
// the individual types the library ships.  (The file is appended to a unity TU of every .cc of
// src/kernel and src/utility, see tools/fitness_users.py.)
#include "kernel/vita.h"

namespace vita
{
template class selection::tournament<i_mep>;
template class selection::tournament<team<i_mep>>;
template class selection::tournament<i_ga>;
template class selection::alps<i_mep>;
template class selection::alps<i_de>;
template class selection::random<i_mep>;
// (selection::pareto<T>::front and replacement::pareto<T>::run do not compile for any T: they call
//  a non-existent member basic_fitness_t::dominating — dead template code, left out)

template class recombination::base<i_mep>;
template class recombination::base<team<i_mep>>;
template class recombination::base<i_ga>;
template class recombination::de<i_de>;

template class replacement::family_competition<i_mep>;
template class replacement::tournament<i_mep>;
template class replacement::tournament<team<i_mep>>;
template class replacement::tournament<i_ga>;
template class replacement::alps<i_mep>;
template class replacement::alps<i_de>;

template class evolution<i_mep, std_es>;
template class evolution<i_mep, alps_es>;
template class evolution<team<i_mep>, std_es>;
template class evolution<i_ga, std_es>;
template class evolution<i_de, de_es>;
template class evolution<i_de, de_alps_es>;

template class src_search<i_mep, std_es>;
template class src_search<i_mep, alps_es>;
template class src_search<team<i_mep>, std_es>;
template class search_stats<i_mep>;
// (analyzer<T> and distribution<fitness_t> cannot be instantiated as whole classes — some members do
//  not compile for these arguments; the members the evolution loop uses are instantiated implicitly)
}  // namespace vita

namespace c18_users
{
// GA / DE searches take the objective function as a template parameter
inline double objective_ga(const vita::i_ga &) { return 0.0; }
inline double objective_de(const vita::i_de &) { return 0.0; }
using ga_objective_t = decltype(&objective_ga);
using de_objective_t = decltype(&objective_de);
}  // namespace c18_users

namespace vita
{
template class basic_ga_search<i_ga, std_es, c18_users::ga_objective_t>;
template class basic_ga_search<i_de, de_es, c18_users::de_objective_t>;
}  // namespace vita
