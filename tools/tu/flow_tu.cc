// Translation unit for tools/translate_flow.py: every load function and stream constructor of C12,
// with the templates explicitly instantiated so that the AST is fully resolved.
#include "kernel/vita.h"

template class vita::individual<vita::i_mep>;
template class vita::individual<vita::i_ga>;
template class vita::individual<vita::i_de>;
template class vita::team<vita::i_mep>;
template class vita::population<vita::i_mep>;
template class vita::summary<vita::i_mep>;
template class vita::basic_fitness_t<double>;
template class vita::matrix<int>;
template class vita::matrix<unsigned>;
template class vita::distribution<double>;
template class vita::detail::class_names<false>;
template class vita::evaluator<vita::i_mep>;
template class vita::evaluator_proxy<vita::i_mep, vita::test_evaluator<vita::i_mep>>;

// the models (the eight kinds registered by serialize::lambda::load) and their components
template class vita::detail::reg_lambda_f_storage<vita::i_mep, true>;
template class vita::detail::reg_lambda_f_storage<vita::team<vita::i_mep>, true>;
// (tag-dispatched members: only the stream constructors are instantiated)
template vita::basic_reg_lambda_f<vita::i_mep, true>::basic_reg_lambda_f(std::istream &, const vita::symbol_set &);
template vita::basic_reg_lambda_f<vita::team<vita::i_mep>, true>::basic_reg_lambda_f(std::istream &,
                                                                                    const vita::symbol_set &);
template class vita::basic_dyn_slot_lambda_f<vita::i_mep, true, true>;
template class vita::basic_gaussian_lambda_f<vita::i_mep, true, true>;
template class vita::basic_binary_lambda_f<vita::i_mep, true, true>;
template class vita::basic_dyn_slot_lambda_f<vita::i_mep, true, false>;
template class vita::basic_gaussian_lambda_f<vita::i_mep, true, false>;
template class vita::basic_binary_lambda_f<vita::i_mep, true, false>;
template class vita::team_class_lambda_f<vita::i_mep, true, true, vita::basic_dyn_slot_lambda_f>;
template class vita::team_class_lambda_f<vita::i_mep, true, true, vita::basic_gaussian_lambda_f>;
template class vita::team_class_lambda_f<vita::i_mep, true, true, vita::basic_binary_lambda_f>;
template std::unique_ptr<vita::basic_src_lambda_f> vita::serialize::lambda::load<vita::i_mep>(
  std::istream &, const vita::symbol_set &);
template std::unique_ptr<vita::basic_src_lambda_f> vita::serialize::lambda::load<vita::team<vita::i_mep>>(
  std::istream &, const vita::symbol_set &);

// out-of-line definitions living in .cc files
#include "kernel/cache.cc"
#include "kernel/cache_hash.cc"
#include "kernel/ga/i_ga.cc"
#include "kernel/ga/i_de.cc"
#include "kernel/gp/mep/i_mep.cc"
