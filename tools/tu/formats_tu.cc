// Translation unit for tools/translate_formats.py (C11): every save()/load() pair named by the
// property, with the templates explicitly instantiated so that the AST is fully resolved.
#include "kernel/vita.h"

template class vita::individual<vita::i_mep>;
template class vita::individual<vita::i_ga>;
template class vita::individual<vita::i_de>;
template class vita::team<vita::i_mep>;
template class vita::population<vita::i_mep>;
template class vita::population<vita::i_ga>;
template class vita::population<vita::i_de>;
template class vita::summary<vita::i_mep>;
template class vita::summary<vita::i_ga>;
template class vita::summary<vita::i_de>;
template class vita::basic_fitness_t<double>;
template class vita::matrix<int>;
template class vita::matrix<unsigned>;
template class vita::distribution<double>;

// trained models: the eight kinds the factory knows (member-wise explicit instantiation: some other
// members of these class templates are only valid for one of team / non-team)
namespace vita
{
using ss_t = const symbol_set &;
template basic_reg_lambda_f<i_mep, true>::basic_reg_lambda_f(std::istream &, ss_t);
template bool basic_reg_lambda_f<i_mep, true>::save(std::ostream &) const;
template basic_reg_lambda_f<team<i_mep>, true>::basic_reg_lambda_f(std::istream &, ss_t);
template bool basic_reg_lambda_f<team<i_mep>, true>::save(std::ostream &) const;
template basic_dyn_slot_lambda_f<i_mep, true, true>::basic_dyn_slot_lambda_f(std::istream &, ss_t);
template bool basic_dyn_slot_lambda_f<i_mep, true, true>::save(std::ostream &) const;
template basic_dyn_slot_lambda_f<i_mep, true, false>::basic_dyn_slot_lambda_f(std::istream &, ss_t);
template bool basic_dyn_slot_lambda_f<i_mep, true, false>::save(std::ostream &) const;
template basic_gaussian_lambda_f<i_mep, true, true>::basic_gaussian_lambda_f(std::istream &, ss_t);
template bool basic_gaussian_lambda_f<i_mep, true, true>::save(std::ostream &) const;
template basic_gaussian_lambda_f<i_mep, true, false>::basic_gaussian_lambda_f(std::istream &, ss_t);
template bool basic_gaussian_lambda_f<i_mep, true, false>::save(std::ostream &) const;
template basic_binary_lambda_f<i_mep, true, true>::basic_binary_lambda_f(std::istream &, ss_t);
template bool basic_binary_lambda_f<i_mep, true, true>::save(std::ostream &) const;
template basic_binary_lambda_f<i_mep, true, false>::basic_binary_lambda_f(std::istream &, ss_t);
template bool basic_binary_lambda_f<i_mep, true, false>::save(std::ostream &) const;
template team_class_lambda_f<i_mep, true, true, basic_dyn_slot_lambda_f>::team_class_lambda_f(std::istream &, ss_t);
template bool team_class_lambda_f<i_mep, true, true, basic_dyn_slot_lambda_f>::save(std::ostream &) const;
template team_class_lambda_f<i_mep, true, true, basic_gaussian_lambda_f>::team_class_lambda_f(std::istream &, ss_t);
template bool team_class_lambda_f<i_mep, true, true, basic_gaussian_lambda_f>::save(std::ostream &) const;
template team_class_lambda_f<i_mep, true, true, basic_binary_lambda_f>::team_class_lambda_f(std::istream &, ss_t);
template bool team_class_lambda_f<i_mep, true, true, basic_binary_lambda_f>::save(std::ostream &) const;
template std::unique_ptr<basic_src_lambda_f> serialize::lambda::load<i_mep>(std::istream &, ss_t);
template std::unique_ptr<basic_src_lambda_f> serialize::lambda::load<team<i_mep>>(std::istream &, ss_t);
}  // namespace vita

// the evaluator cache and its users
template class vita::evaluator<vita::i_mep>;
template class vita::evaluator_proxy<vita::i_mep, vita::test_evaluator<vita::i_mep>>;
template class vita::search<vita::i_mep, vita::std_es>;

// out-of-line definitions living in .cc files
#include "kernel/cache_hash.cc"
#include "kernel/cache.cc"
#include "kernel/ga/i_ga.cc"
#include "kernel/ga/i_de.cc"
#include "kernel/gp/mep/i_mep.cc"
#include "kernel/gp/src/lambda_f.cc"
