// translation unit handed to clang for tools/translate_gade.py (C17): the GA / DE individuals and their
// operators, the numeric terminals, the random helpers, the age book-keeping of individual<> and the
// recombination strategies
#include "kernel/vita.h"
#include "kernel/ga/i_de.h"
#include "kernel/ga/i_ga.h"
#include "kernel/ga/primitive.h"
#include "kernel/ga/i_ga.cc"
#include "kernel/ga/i_de.cc"
namespace vita
{
template class individual<i_ga>;
template class individual<i_de>;
template class ga::detail::number<int>;
template class ga::detail::number<double>;
template class recombination::base<i_ga>;
template class recombination::de<i_de>;
template int random::between<int>(int, int);
template unsigned random::between<unsigned>(unsigned, unsigned);
template std::size_t random::between<std::size_t>(std::size_t, std::size_t);
template double random::between<double>(double, double);
template int random::in<int>(range_t<int>);
template double random::in<double>(range_t<double>);
template unsigned random::sup<unsigned>(unsigned);
template std::size_t random::sup<std::size_t>(std::size_t);
}
