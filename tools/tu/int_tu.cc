// translation unit handed to clang for the AST of the integer primitives
#include "kernel/vita.h"
#include "kernel/gp/src/primitive/int.h"
