// translation unit handed to clang for the AST of the interpreters (C01): interpreter<i_mep>
// (interpreter.cc), core_interpreter / symbol_params (core_interpreter.h), src_interpreter<i_mep>
// (gp/src/interpreter.tcc), gene::locus_of_argument (gene.tcc), comparison_function_penalty and the
// penalty_nvi overrides of the primitives
#include "kernel/vita.h"
#include "kernel/gp/src/primitive/bool.h"
#include "kernel/gp/src/primitive/int.h"
#include "kernel/gp/src/primitive/real.h"
#include "kernel/gp/src/primitive/string.h"
#include "kernel/gp/src/interpreter.h"
#include "kernel/gp/src/variable.h"
template class vita::src_interpreter<vita::i_mep>;
template class vita::basic_gene<4>;
#include "kernel/gp/mep/interpreter.cc"
#include "kernel/gp/symbol.cc"
