// Translation unit for tools/translate_loads.py: every load function named by C12,
// with the templates explicitly instantiated so that the AST is fully resolved.
#include "kernel/vita.h"

template class vita::individual<vita::i_mep>;
template class vita::individual<vita::i_ga>;
template class vita::individual<vita::i_de>;
template class vita::team<vita::i_mep>;
template class vita::population<vita::i_mep>;
template class vita::population<vita::i_ga>;
template class vita::summary<vita::i_mep>;
template class vita::basic_fitness_t<double>;
template class vita::matrix<int>;
template class vita::matrix<unsigned>;
template class vita::distribution<double>;

// out-of-line definitions living in .cc files
#include "kernel/cache_hash.cc"
#include "kernel/ga/i_ga.cc"
#include "kernel/ga/i_de.cc"
#include "kernel/gp/mep/i_mep.cc"
