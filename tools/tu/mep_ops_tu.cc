// translation unit handed to clang for the AST of the MEP genetic operators (i_mep.cc, gene.tcc, team.tcc)
#include "kernel/vita.h"
#include "kernel/gp/mep/i_mep.cc"
// team<i_mep> is a template: instantiate the operators so that the AST holds their typed bodies
template class vita::team<vita::i_mep>;
template vita::team<vita::i_mep> vita::crossover(const vita::team<vita::i_mep> &, const vita::team<vita::i_mep> &);
