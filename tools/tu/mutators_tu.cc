// translation unit handed to clang for the AST of the individual classes and team<T>
#include "kernel/vita.h"
#include "kernel/ga/i_de.h"
#include "kernel/ga/i_ga.h"
#include "kernel/gp/team.h"
#include "kernel/gp/mep/i_mep.cc"
#include "kernel/ga/i_ga.cc"
#include "kernel/ga/i_de.cc"
namespace vita { template class team<i_mep>; template class individual<i_mep>; template class individual<i_ga>; template class individual<i_de>; template team<i_mep> crossover(const team<i_mep> &, const team<i_mep> &); }
