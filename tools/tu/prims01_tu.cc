// translation unit handed to clang for the AST of the eval bodies of vita::boolean::*, vita::integer::number,
// vita::variable and vita::constant<T> (C01, tools/translate_prims01.py)
#include "kernel/vita.h"
#include "kernel/gp/src/primitive/bool.h"
#include "kernel/gp/src/primitive/int.h"
#include "kernel/gp/src/constant.h"
#include "kernel/gp/src/variable.h"
template class vita::constant<double>;
template class vita::constant<int>;
