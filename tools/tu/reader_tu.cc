// Translation unit for tools/translate_reader.py: the dataset readers (dataframe.cc), the CSV parser and
// sniffer (pocket_csv.h, all inline) and src_problem's set-up of the terminals (problem.cc).
#include "kernel/vita.h"

// out-of-line definitions living in .cc files
#include "kernel/gp/src/dataframe.cc"
#include "kernel/gp/src/problem.cc"
#include "kernel/gp/src/category_set.cc"
#include "utility/utility.cc"
