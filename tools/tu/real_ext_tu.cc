// translation unit handed to clang for the AST of the remaining symbol classes C13 accounts for:
// the boolean primitives, the terminals `variable` and `constant<T>` (explicitly instantiated for the
// value types the dataframe / factory use) and comparison_function_penalty
#include "kernel/vita.h"
#include "kernel/gp/src/primitive/bool.h"
#include "kernel/gp/src/primitive/real.h"
#include "kernel/gp/src/primitive/string.h"
#include "kernel/gp/src/primitive/comp_penalty.h"
#include "kernel/gp/src/constant.h"
#include "kernel/gp/src/variable.h"
template class vita::constant<double>;
template class vita::constant<int>;
