// translation unit handed to clang for the AST of the real-valued primitives (+ str::ife, issmall)
#include "kernel/vita.h"
#include "kernel/gp/src/primitive/real.h"
#include "kernel/gp/src/primitive/string.h"
