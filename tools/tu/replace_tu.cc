// translation unit handed to clang for the AST of vita::replace_all (C19): the routine language()
// uses to put the rendering of an argument in place of the `%%n%%` placeholder of a template
#include "utility/utility.cc"
