// translation unit for tools/translate_rng.py: the generator and its stream operators
#include "utility/xoshiro256ss.cc"
