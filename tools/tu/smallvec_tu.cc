// translation unit handed to clang for the AST of src/utility/small_vector.{h,tcc} alone
// (template patterns: the bodies are dumped unresolved, only their structure is read)
#include <algorithm>
#include <cstddef>
#include <iterator>
#include <type_traits>

#include "utility/small_vector.h"
