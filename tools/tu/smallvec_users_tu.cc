// translation unit handed to clang for the call-site layer of C20: the evolution machinery is
// header-only (templates over the individual type), so the offspring vectors of
// evolution_recombination.h are only instantiated by client programs.  The explicit instantiations
// below are the client: every recombination / replacement strategy and the evolution loop for the
// individual types the library ships.
#include "kernel/vita.h"

namespace vita
{
template class recombination::base<i_mep>;
template class recombination::base<team<i_mep>>;
template class recombination::base<i_ga>;
template class recombination::de<i_de>;

template class replacement::family_competition<i_mep>;
template class replacement::tournament<i_mep>;
template class replacement::tournament<team<i_mep>>;
template class replacement::tournament<i_ga>;
template class replacement::alps<i_mep>;
template class replacement::alps<i_de>;
// (replacement::pareto<T>::run does not compile for any T: it calls a non-existent member
//  basic_fitness_t::dominating — dead template code, left out)

template class evolution<i_mep, std_es>;
template class evolution<i_mep, alps_es>;
template class evolution<team<i_mep>, std_es>;
template class evolution<i_ga, std_es>;
template class evolution<i_de, de_es>;
}  // namespace vita
