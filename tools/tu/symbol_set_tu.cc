// translation unit handed to clang for the AST of symbol_set::roulette* and of the wedge loop of
// symbol_set::collection::sum_container::roulette (C02)
#include "kernel/vita.h"
#include "kernel/symbol_set.cc"
