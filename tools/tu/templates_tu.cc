// translation unit handed to clang for the AST of every display() override (C19)
#include "kernel/vita.h"
#include "kernel/gp/src/primitive/bool.h"
#include "kernel/gp/src/primitive/int.h"
#include "kernel/gp/src/primitive/real.h"
#include "kernel/gp/src/primitive/string.h"
#include "kernel/gp/src/constant.h"
#include "kernel/gp/src/variable.h"
template class vita::constant<double>;
template class vita::constant<int>;
#include "kernel/gp/function.cc"
#include "kernel/gp/terminal.cc"
