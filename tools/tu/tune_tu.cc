// translation unit handed to clang for the AST of environment::is_valid and the three tune_parameters
#include "kernel/vita.h"
#include "kernel/environment.cc"
