// translation unit handed to clang for the AST of the validation strategies (holdout_validation.cc,
// dss.cc), dataframe's mutators, search<T,ES>::run, evolution<T,ES>::run and
// src_search<T,ES>::validation_strategy (tools/translate_validation.py)
#include "kernel/vita.h"
#include "kernel/gp/src/holdout_validation.cc"
#include "kernel/gp/src/dss.cc"
#include "kernel/gp/src/dataframe.cc"
