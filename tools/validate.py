#!/usr/bin/env python3
"""Validate MANIFEST.json and every evidence file against the schemas (run with python3-vt)."""
import json, glob, os, sys, jsonschema
R = os.path.dirname(os.path.dirname(os.path.abspath(__file__)))
ok = True
m = json.load(open(R + '/MANIFEST.json'))
jsonschema.validate(m, json.load(open('/root/.vp/MANIFEST.schema.json')))
ids = {json.loads(l)['id'] for l in open(R + '/properties.jsonl')}
claimed = {c['property_id'] for c in m['checks']}
na = {c['property_id'] for c in m.get('not_applicable', [])}
assert claimed | na == ids and not (claimed & na), (ids - claimed - na, claimed & na)
es = json.load(open('/root/.vp/EVIDENCE.schema.json'))
for f in sorted(glob.glob(R + '/evidence/*.json')):
    try:
        jsonschema.validate(json.load(open(f)), es)
    except Exception as e:
        ok = False
        print("INVALID", f, str(e)[:300])
print("manifest ok; claimed:", sorted(claimed))
sys.exit(0 if ok else 1)
