"""Shared machinery for the vita verification checks.

Everything a check needs that is not specific to one property lives here:

* building libvita.a from /repo's *current working tree* (hooks on) into
  /verif/build/<cfg>/, keyed by a hash of the sources;
* building a C++ harness against it;
* building Lean targets (`lake build`) and the compiled drivers;
* the proof audit (forbidden tokens, `#print axioms` for every property theorem);
* running a driver on a line stream and diffing it with the implementation's;
* known-findings matching, replay files, VIOLATION / KNOWN-FINDING lines;
* the evidence writer.

Paths are derived from this file's location so that a snapshot of /verif
(`vp run`) works as well as /verif itself.
"""
import concurrent.futures as cf
import hashlib
import json
import os
import re
import shutil
import subprocess
import sys
import time

ROOT = os.path.dirname(os.path.dirname(os.path.abspath(__file__)))
REPO = os.environ.get("VERIF_REPO", "/repo")
LEAN = os.path.join(ROOT, "lean")
BUILD = os.path.join(ROOT, "build")
EVID = os.path.join(ROOT, "evidence")
REPLAYS = os.path.join(ROOT, "replays")
GUARD = "VITA_VERIF"
NPROC = int(os.environ.get("VERIF_JOBS") or 0) or os.cpu_count() or 4

ALLOWED_AXIOMS = {"propext", "Classical.choice", "Quot.sound"}
FORBIDDEN = re.compile(
    r"\b(sorry|admit|native_decide|bv_decide|implemented_by|unsafe)\b|^\s*axiom\s|maxHeartbeats\s+0\b",
    re.M)

SAN_FLAGS = {
    "asan": ["-fsanitize=address,undefined", "-fno-sanitize-recover=all",
             "-fno-omit-frame-pointer"],
    "tsan": ["-fsanitize=thread"],
    "plain": [],
}


def log(*a):
    print(*a, file=sys.stderr, flush=True)


def sh(cmd, cwd=None, inp=None, timeout=None, env=None):
    """Run a command, return (rc, stdout, stderr) with text decoding that never fails."""
    e = dict(os.environ)
    if env:
        e.update(env)
    p = subprocess.run(cmd, cwd=cwd, input=inp, stdout=subprocess.PIPE,
                       stderr=subprocess.PIPE, timeout=timeout, env=e)
    return p.returncode, p.stdout.decode("utf-8", "replace"), p.stderr.decode("utf-8", "replace")


# ---------------------------------------------------------------------------
# C++ side
# ---------------------------------------------------------------------------

def repo_sources():
    srcs = []
    for sub in ("kernel", "utility", "third_party/tinyxml2"):
        for d, _, fs in os.walk(os.path.join(REPO, "src", sub)):
            for f in sorted(fs):
                if f.endswith(".cc"):
                    srcs.append(os.path.join(d, f))
    return sorted(srcs)


def repo_tree_hash(extra=""):
    """Hash of every file under /repo/src/{kernel,utility,third_party} (content)."""
    h = hashlib.sha256()
    h.update(extra.encode())
    for sub in ("kernel", "utility", "third_party"):
        for d, dn, fs in os.walk(os.path.join(REPO, "src", sub)):
            dn.sort()
            for f in sorted(fs):
                p = os.path.join(d, f)
                h.update(p.encode())
                try:
                    with open(p, "rb") as fh:
                        h.update(fh.read())
                except OSError:
                    pass
    return h.hexdigest()


def cxx_flags(cfg, ndebug=True, hooks=True):
    fl = ["-std=c++17", "-O1", "-g", "-w", "-pthread",
          "-I" + os.path.join(REPO, "src"),
          "-isystem", os.path.join(REPO, "src", "third_party")]
    if ndebug:
        fl.append("-DNDEBUG")
    if hooks:
        fl.append("-D" + GUARD)
    fl += SAN_FLAGS[cfg.split("-")[0]]
    return fl


def build_vita(cfg="asan", ndebug=True):
    """(Re)build libvita.a for `cfg` from /repo's working tree.  Returns the lib path.

    cfg: "asan" (ASan+UBSan), "tsan", "plain"; suffix "-dbg" = asserts enabled.
    Raises RuntimeError with the compiler output if /repo does not compile."""
    if cfg.endswith("-dbg"):
        ndebug = False
    out = os.path.join(BUILD, cfg)
    os.makedirs(os.path.join(out, "obj"), exist_ok=True)
    flags = cxx_flags(cfg, ndebug)
    key = repo_tree_hash(" ".join(flags))
    stamp = os.path.join(out, "stamp")
    lib = os.path.join(out, "libvita.a")
    if os.path.exists(stamp) and os.path.exists(lib) and open(stamp).read() == key:
        return lib
    t0 = time.time()
    srcs = repo_sources()
    objs = []

    def comp(src):
        o = os.path.join(out, "obj", hashlib.md5(src.encode()).hexdigest()[:12] + "_" +
                         os.path.basename(src)[:-3] + ".o")
        rc, so, se = sh(["g++"] + flags + ["-c", src, "-o", o])
        return src, o, rc, se

    with cf.ThreadPoolExecutor(NPROC) as ex:
        res = list(ex.map(comp, srcs))
    bad = [(s, e) for s, o, rc, e in res if rc != 0]
    if bad:
        raise RuntimeError("libvita does not compile:\n" + "\n".join(f"{s}:\n{e[-3000:]}" for s, e in bad))
    objs = [o for _, o, _, _ in res]
    if os.path.exists(lib):
        os.remove(lib)
    rc, so, se = sh(["ar", "rcs", lib] + objs)
    if rc != 0:
        raise RuntimeError("ar failed: " + se)
    with open(stamp, "w") as f:
        f.write(key)
    log(f"[build] libvita ({cfg}) rebuilt in {time.time() - t0:.1f}s")
    return lib


def build_harness(name, cfg="asan", extra_srcs=(), extra_flags=(), ndebug=True):
    """Compile /verif/harness/<name>.cc (+extra) against libvita(cfg).  Returns exe path.

    Always recompiles when the repo tree hash or the harness source changed."""
    if cfg.endswith("-dbg"):
        ndebug = False
    lib = build_vita(cfg, ndebug)
    out = os.path.join(BUILD, cfg)
    src = os.path.join(ROOT, "harness", name + ".cc")
    exe = os.path.join(out, name)
    flags = cxx_flags(cfg, ndebug) + ["-I" + os.path.join(ROOT, "harness")] + list(extra_flags)
    h = hashlib.sha256()
    h.update(open(os.path.join(out, "stamp")).read().encode())
    cdir = os.path.join(ROOT, "harness", "common")
    common = sorted(os.path.join(cdir, f) for f in os.listdir(cdir)) if os.path.isdir(cdir) else []
    for s in [src] + list(extra_srcs) + common:
        h.update(open(s, "rb").read())
    h.update(" ".join(flags).encode())
    key = h.hexdigest()
    stamp = exe + ".stamp"
    if os.path.exists(exe) and os.path.exists(stamp) and open(stamp).read() == key:
        return exe
    t0 = time.time()
    rc, so, se = sh(["g++"] + flags + [src] + list(extra_srcs) + ["-o", exe, lib])
    if rc != 0:
        raise RuntimeError(f"harness {name} does not compile:\n{se[-6000:]}")
    with open(stamp, "w") as f:
        f.write(key)
    log(f"[build] harness {name} ({cfg}) built in {time.time() - t0:.1f}s")
    return exe


SAN_ENV = {
    "ASAN_OPTIONS": "detect_leaks=1:abort_on_error=0:exitcode=99:allocator_may_return_null=1",
    "UBSAN_OPTIONS": "print_stacktrace=1:halt_on_error=1:exitcode=98",
    "TSAN_OPTIONS": "exitcode=97:halt_on_error=1",
}


def run_harness(exe, args=(), inp=None, timeout=900, env=None):
    e = dict(SAN_ENV)
    if env:
        e.update(env)
    if isinstance(inp, str):
        inp = inp.encode()
    if inp is None:
        inp = b""
    return sh([exe] + [str(a) for a in args], inp=inp, timeout=timeout, env=e)


def run_lines(exe, lines, args=(), env=None, timeout=1800, max_restarts=25):
    """Feed one request per line to a harness that answers one line per request.

    If the process dies (sanitizer abort, crash) the request it died on is answered with
    "died rc=<n> <last stderr line>" and the harness is restarted on the remaining lines.
    Returns (answers, deaths) where deaths = [(index, rc, stderr_tail)]."""
    answers, deaths, start = [], [], 0
    while start < len(lines):
        rc, so, se = run_harness(exe, args, inp="\n".join(lines[start:]) + "\n", timeout=timeout, env=env)
        got = so.splitlines()
        if rc == 0 and len(got) >= len(lines) - start:
            answers += got[:len(lines) - start]
            break
        answers += got[:len(lines) - start]
        idx = start + len(got)
        if idx >= len(lines):
            deaths.append((len(lines) - 1, rc, se[-3000:]))
            break
        deaths.append((idx, rc, se[-3000:]))
        answers.append("died rc=%d" % rc)
        start = idx + 1
        if len(deaths) >= max_restarts:
            answers += ["skipped"] * (len(lines) - start)
            break
    return answers, deaths


# ---------------------------------------------------------------------------
# Lean side
# ---------------------------------------------------------------------------

def lake_build(targets, timeout=1800):
    """`lake build <targets>` in /verif/lean.  Returns (ok, output)."""
    rc, so, se = sh(["lake", "build"] + list(targets), cwd=LEAN, timeout=timeout)
    return rc == 0, so + se


def lean_errors(output, limit=4000):
    """Extract the `error:` blocks of a lake/lean output."""
    keep, on = [], False
    for ln in output.splitlines():
        if ln.startswith("error:") or ": error:" in ln:
            on = True
        elif ln.startswith("warning:") or ln.startswith("✔") or ln.startswith("ℹ") or ln.startswith("⚠"):
            on = False
        if on:
            keep.append(ln)
    return "\n".join(keep)[:limit]


def driver_path(exe):
    return os.path.join(LEAN, ".lake", "build", "bin", exe)


def run_driver(exe, lines, timeout=1800):
    """Feed `lines` (list of str) to the compiled Lean driver; returns list of output lines."""
    data = ("\n".join(lines) + "\n").encode() if lines else b""
    rc, so, se = sh([driver_path(exe)], inp=data, timeout=timeout)
    if rc != 0:
        raise RuntimeError(f"driver {exe} failed rc={rc}: {se[-2000:]}")
    return so.splitlines()


def strip_comments(src):
    """Remove Lean comments (nested block comments and line comments) and string literals."""
    out, i, n, depth = [], 0, len(src), 0
    while i < n:
        if src.startswith("/-", i):
            depth += 1
            i += 2
        elif depth and src.startswith("-/", i):
            depth -= 1
            i += 2
        elif depth:
            if src[i] == "\n":
                out.append("\n")
            i += 1
        elif src.startswith("--", i):
            while i < n and src[i] != "\n":
                i += 1
        elif src[i] == "'" and i + 2 < n and (src[i + 2] == "'" or (src[i + 1] == "\\" and "'" in src[i + 2:i + 8])):
            # character literal such as '"' or '\n': copy verbatim so that a quote inside is not a string start
            j = src.index("'", i + 2 if src[i + 1] != "\\" else i + 3)
            out.append(src[i:j + 1])
            i = j + 1
        elif src[i] == '"':
            i += 1
            while i < n and src[i] != '"':
                i += 2 if src[i] == "\\" else 1
            i += 1
            out.append('""')
        else:
            out.append(src[i])
            i += 1
    return "".join(out)


def module_file(mod):
    return os.path.join(LEAN, *mod.split(".")) + ".lean"


def module_imports(mod, seen=None):
    """Transitive closure of `import Vita.*` from a module (files on disk)."""
    seen = seen if seen is not None else []
    if mod in seen:
        return seen
    seen.append(mod)
    try:
        src = open(module_file(mod)).read()
    except OSError:
        return seen
    for m in re.findall(r"^import\s+(Vita[\w.]*)", src, re.M):
        module_imports(m, seen)
    return seen


def theorem_names(mod):
    """Fully qualified names of the theorems declared in a module (namespace aware, simple)."""
    src = strip_comments(open(module_file(mod)).read())
    names, ns = [], []
    for ln in src.splitlines():
        m = re.match(r"\s*namespace\s+([\w.]+)", ln)
        if m:
            ns.append(m.group(1))
            continue
        m = re.match(r"\s*end\s+([\w.]+)\s*$", ln)
        if m and ns and ns[-1] == m.group(1):
            ns.pop()
            continue
        m = re.match(r"\s*(?:@\[[^\]]*\]\s*)?(?:private\s+|protected\s+)?theorem\s+([\w.'!?]+)", ln)
        if m:
            names.append(".".join(ns + [m.group(1)]))
    return names


def audit(prop_mod, extra_mods=()):
    """Proof audit for a property module (must already be built).

    Returns dict(ok, theorems=[...], axioms={thm: [...]}, forbidden=[...], msg)."""
    res = {"ok": True, "theorems": [], "axioms": {}, "forbidden": [], "msg": ""}
    mods = module_imports(prop_mod)
    for m in extra_mods:
        module_imports(m, mods)
    for m in mods:
        try:
            src = strip_comments(open(module_file(m)).read())
        except OSError:
            continue
        for hit in FORBIDDEN.finditer(src):
            res["forbidden"].append(f"{m}: {hit.group(0).strip()}")
    if res["forbidden"]:
        res["ok"] = False
        res["msg"] = "forbidden tokens: " + "; ".join(res["forbidden"][:5])
    thms = theorem_names(prop_mod)
    res["theorems"] = thms
    if not thms:
        res["ok"] = False
        res["msg"] += " no theorems found in " + prop_mod
        return res
    tmpd = os.path.join(BUILD, "audit")
    os.makedirs(tmpd, exist_ok=True)
    f = os.path.join(tmpd, prop_mod.replace(".", "_") + ".lean")
    with open(f, "w") as fh:
        fh.write(f"import {prop_mod}\n")
        for t in thms:
            fh.write(f"#print axioms {t}\n")
    rc, so, se = sh(["lake", "env", "lean", f], cwd=LEAN, timeout=900)
    txt = so + se
    if rc != 0:
        res["ok"] = False
        res["msg"] += " audit file failed: " + txt[-1500:]
        return res
    # parse: "'X' depends on axioms: [a, b]" / "'X' does not depend on any axioms"
    flat = re.sub(r"\s+", " ", txt)
    for m in re.finditer(r"'([^']+)' depends on axioms: \[([^\]]*)\]", flat):
        res["axioms"][m.group(1)] = [a.strip() for a in m.group(2).split(",") if a.strip()]
    for m in re.finditer(r"'([^']+)' does not depend on any axioms", flat):
        res["axioms"][m.group(1)] = []
    for t in thms:
        if t not in res["axioms"]:
            res["ok"] = False
            res["msg"] += f" no axiom report for {t};"
        else:
            bad = [a for a in res["axioms"][t] if a not in ALLOWED_AXIOMS]
            if bad:
                res["ok"] = False
                res["msg"] += f" {t} depends on {bad};"
    return res


def leanchecker(mod):
    rc, so, se = sh(["lake", "env", "leanchecker", mod], cwd=LEAN, timeout=1800)
    return rc == 0, (so + se)[-2000:]


# ---------------------------------------------------------------------------
# verdicts, known findings, evidence
# ---------------------------------------------------------------------------

def known_findings():
    """Entries of known_findings.json plus every known_findings.d/*.json (same format)."""
    out = []
    ps = [os.path.join(ROOT, "known_findings.json")]
    d = os.path.join(ROOT, "known_findings.d")
    if os.path.isdir(d):
        ps += sorted(os.path.join(d, f) for f in os.listdir(d) if f.endswith(".json"))
    for p in ps:
        if os.path.exists(p):
            out += json.load(open(p)).get("findings", [])
    return out


class Check:
    """One run of one property's check: collects violations, evidence, timing."""

    def __init__(self, pid, tier, seed):
        self.pid, self.tier, self.seed = pid, tier, seed
        self.t0 = time.time()
        self.violations = []      # (what, replay_obj, no_input)
        self.known_hit = []
        self.cov = {"samples": [], "trusted_base": [], "input_distribution": {}}
        self.assumptions = []
        self.obligations = 0
        self.discharged = 0
        self.evaluations = 0
        self.distinct = set()
        self.notes = []
        self.kf = [k for k in known_findings() if k.get("property") == pid and k.get("status", "known") == "known"]

    # -- bookkeeping -------------------------------------------------------
    def count(self, key, n=1):
        d = self.cov["input_distribution"]
        d[key] = d.get(key, 0) + n

    def sample(self, s, limit=6):
        if len(self.cov["samples"]) < limit:
            self.cov["samples"].append(s)

    def seen(self, canon, nontrivial=True):
        self.evaluations += 1
        if nontrivial:
            self.distinct.add(hashlib.blake2b(repr(canon).encode(), digest_size=8).digest())

    # -- findings ----------------------------------------------------------
    def match_known(self, tags):
        """tags: dict describing the failing case.  A known finding matches when every
        key of its `match` dict equals (or regex-matches with prefix 're:') the tag."""
        for k in self.kf:
            ok = True
            for key, want in k.get("match", {}).items():
                have = tags.get(key)
                if isinstance(want, str) and want.startswith("re:"):
                    if have is None or not re.search(want[3:], str(have)):
                        ok = False
                        break
                elif have != want:
                    ok = False
                    break
            if ok:
                return k
        return None

    def violation(self, what, replay, tags=None, no_input=False):
        """Report a failing case (or, with no_input, a broken proof/correspondence)."""
        tags = tags or {}
        if not no_input:
            k = self.match_known(tags)
            if k is not None:
                if k["id"] not in [x["id"] for x in self.known_hit]:
                    self.known_hit.append(k)
                return False
        self.violations.append((what, replay, no_input))
        return True

    # -- end ---------------------------------------------------------------
    def finish(self, level="proof", checker_cmd="", rule="", trusted=None, extra=None):
        os.makedirs(EVID, exist_ok=True)
        os.makedirs(REPLAYS, exist_ok=True)
        for k in self.known_hit:
            print(f"KNOWN-FINDING: property={self.pid} {k['id']}: {k['what']}")
        # a concrete failing input beats a no-input report for the same run
        concrete = [v for v in self.violations if not v[2]]
        noinp = [v for v in self.violations if v[2]]
        rc = 0
        report = concrete if concrete else noinp
        for i, (what, replay, no_input) in enumerate(report[:5]):
            path = os.path.join(REPLAYS, f"{self.pid}-{self.tier}-{self.seed}-{i}.json")
            obj = {"property": self.pid, "what": what, "replay": replay,
                   "seed": self.seed, "tier": self.tier,
                   "rerun": f"VERIF_SEED={self.seed} python3 check.py {self.pid} --tier {self.tier}"}
            if concrete and noinp:
                obj["also_broken"] = [w for w, _, _ in noinp[:5]]
            with open(path, "w") as f:
                json.dump(obj, f, indent=1, default=str)
            tail = " no-failing-input-found" if no_input else ""
            print(f"VIOLATION property={self.pid} replay={path}{tail}")
            log(f"  -> {what[:1500]}")
            rc = 1
        cov = self.cov
        cov["obligations"] = self.obligations
        cov["discharged"] = self.discharged
        cov["checker_cmd"] = checker_cmd
        cov["trusted_base"] = (trusted or []) + cov["trusted_base"]
        cov["evaluations"] = self.evaluations
        cov["distinct_nontrivial"] = len(self.distinct)
        cov["rule"] = rule
        if extra:
            cov.update(extra)
        if not cov["samples"]:
            cov["samples"] = ["(no samples recorded)"]
        ev = {"property_id": self.pid, "tier": self.tier, "seed": self.seed, "level": level,
              "coverage": cov, "assumptions": self.assumptions,
              "wall_s": round(time.time() - self.t0, 2), "violations": len(report),
              "known_findings_hit": [k["id"] for k in self.known_hit], "notes": self.notes}
        evpath = os.path.join(EVID, f"{self.pid}.json")
        if os.environ.get("VERIF_NO_EVIDENCE"):      # seeded-mutant runs keep the committed evidence
            evpath = os.path.join(BUILD, f"evidence-{self.pid}.json")
        with open(evpath, "w") as f:
            json.dump(ev, f, indent=1, default=str)
        if rc == 0:
            print(f"OK property={self.pid} tier={self.tier} seed={self.seed} "
                  f"obligations={self.discharged}/{self.obligations} evaluations={self.evaluations} "
                  f"distinct={len(self.distinct)} wall={ev['wall_s']}s")
        return rc

    # -- the standard proof stage -----------------------------------------
    def prove(self, prop_mod, targets, extra_obligations=0):
        """Build the property module + drivers, audit it.  Returns (ok, message).

        On failure nothing is reported yet: the caller searches for a failing input
        first and then calls `proof_broken`."""
        ok, out = lake_build(targets)
        if not ok:
            self.obligations = max(self.obligations, 1)
            return False, "lake build failed:\n" + lean_errors(out)
        a = audit(prop_mod)
        self.obligations = len(a["theorems"]) + extra_obligations
        if not a["ok"]:
            return False, "proof audit failed: " + a["msg"]
        self.discharged = self.obligations
        self.cov["theorems"] = a["theorems"]
        self.cov["axioms_used"] = sorted({x for v in a["axioms"].values() for x in v})
        if self.tier == "thorough":
            ok2, msg = leanchecker(prop_mod)
            self.cov["leanchecker"] = "ok" if ok2 else msg
            if not ok2:
                self.discharged = 0
                return False, "leanchecker rejected " + prop_mod + ": " + msg
        return True, ""


class SplitMix:
    """Deterministic PRNG shared by all Python-side generators (one state per run)."""

    def __init__(self, seed):
        # scramble the seed first: with s = seed*GOLDEN + c the streams of adjacent seeds would be
        # shifted copies of each other
        z = (seed * 0xD6E8FEB86659FD93 + 0x2545F4914F6CDD1D) & 0xFFFFFFFFFFFFFFFF
        z = ((z ^ (z >> 32)) * 0xD6E8FEB86659FD93) & 0xFFFFFFFFFFFFFFFF
        self.s = z ^ (z >> 29)

    def next(self):
        self.s = (self.s + 0x9E3779B97F4A7C15) & 0xFFFFFFFFFFFFFFFF
        z = self.s
        z = ((z ^ (z >> 30)) * 0xBF58476D1CE4E5B9) & 0xFFFFFFFFFFFFFFFF
        z = ((z ^ (z >> 27)) * 0x94D049BB133111EB) & 0xFFFFFFFFFFFFFFFF
        return z ^ (z >> 31)

    def below(self, n):
        return self.next() % n if n > 0 else 0

    def between(self, a, b):
        return a + self.below(b - a)

    def choice(self, xs):
        return xs[self.below(len(xs))]

    def chance(self, p):
        return (self.next() >> 11) / float(1 << 53) < p


def env_seed():
    try:
        return int(os.environ.get("VERIF_SEED", "1"))
    except ValueError:
        return 1
